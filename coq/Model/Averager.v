(* C15: averaging in time and frequency.  Model of katdal/averager.py
     average_visibilities (134-149: clamping of the factors, trimming to whole bins) and
     _average_visibilities (22-88: the accumulation loops and the finishing step of every bin).

   Numbers are exact: visibilities are pairs of canonical rationals, weights canonical rationals (no IEEE
   arithmetic: NaN / infinite inputs and float32 rounding are outside the model).  Which factor is clamped to the
   array size is regenerated from the source (Generated.averager_clamp_timeav / _chanav / averager_flagav_min). *)
From Coq Require Import ZArith QArith Qcanon List Bool Arith.
From KV Require Import Base.Sx Gen.Generated.
Import ListNotations.
Close Scope Q_scope.
Open Scope nat_scope.

Definition cq := (Qc * Qc)%type.
Definition cq0 : cq := (0%Qc, 0%Qc).
Definition cadd (x y : cq) : cq := ((fst x + fst y)%Qc, (snd x + snd y)%Qc).
Definition cscale (w : Qc) (x : cq) : cq := ((w * fst x)%Qc, (w * snd x)%Qc).
Definition cdivq (x : cq) (w : Qc) : cq := ((fst x / w)%Qc, (snd x / w)%Qc).

(* one input sample: visibility, weight, flag *)
Definition sample := (cq * Qc * bool)%type.
Definition s_vis (s : sample) : cq := fst (fst s).
Definition s_w (s : sample) : Qc := snd (fst s).
Definition s_flag (s : sample) : bool := snd s.
Definition sample0 : sample := (cq0, 0%Qc, false).

(* the five accumulators of one output cell *)
Record acc := mkAcc { vis_sum : cq; vis_weight_sum : cq; weight_sum : Qc; flag_any : bool; flag_all : bool }.
Definition acc0 : acc := mkAcc cq0 cq0 0%Qc false true.

(* loop body: w = 0 if flagged; flag_any |= f; flag_all &= f; vis_sum += v; vis_weight_sum += w*v; weight_sum += w *)
Definition step (a : acc) (s : sample) : acc :=
  let w := if s_flag s then 0%Qc else s_w s in
  mkAcc (cadd (vis_sum a) (s_vis s)) (cadd (vis_weight_sum a) (cscale w (s_vis s))) (weight_sum a + w)%Qc
        (flag_any a || s_flag s) (flag_all a && s_flag s).

Definition Qc_is_zero (q : Qc) : bool := if Qc_eq_dec q 0 then true else false.
Definition inv_count (n : nat) : Qc := (/ Q2Qc (inject_Z (Z.of_nat n)))%Qc.

(* finishing: if not w: v = vis_sum * scale else v = vis_weight_sum / w; f = flag_any if flagav else flag_all *)
Definition finish (n : nat) (flagav : bool) (a : acc) : sample :=
  let w := weight_sum a in
  (if Qc_is_zero w then cscale (inv_count n) (vis_sum a) else cdivq (vis_weight_sum a) w,
   w,
   if flagav then flag_any a else flag_all a).

Definition arr3 (A : Type) := list (list (list A)).
Definition get3 {A} (a : arr3 A) (d : A) (t f b : nat) : A := nth b (nth f (nth t a []) []) d.

(* the (t, c) positions of bin (i, j), in the order of the two loops *)
Definition bin_positions (timeav chanav i j : nat) : list (nat * nat) :=
  flat_map (fun t => map (fun c => (t, c)) (seq (j * chanav) chanav)) (seq (i * timeav) timeav).

(* _average_visibilities on arrays of shape (n_time, n_chans, n_bl) *)
Definition average_kernel (a : arr3 sample) (n_time n_chans n_bl timeav chanav : nat) (flagav : bool) : arr3 sample :=
  map (fun i => map (fun j => map (fun b =>
        finish (timeav * chanav) flagav
               (fold_left step (map (fun tc => get3 a sample0 (fst tc) (snd tc) b) (bin_positions timeav chanav i j)) acc0))
      (seq 0 n_bl)) (seq 0 (n_chans / chanav))) (seq 0 (n_time / timeav)).

(* vis[:n_time, :n_chans] *)
Definition trim {A} (a : arr3 A) (n_time n_chans : nat) : arr3 A :=
  map (firstn n_chans) (firstn n_time a).

(* average_visibilities: T, F, B = vis.shape.  None = ZeroDivisionError (a factor is 0 after clamping) *)
Definition average_gen (ct cc fm : bool) (a : arr3 sample) (T F B timeav chanav : nat) (flagav : bool)
  : option (arr3 sample) :=
  let timeav := if ct then Nat.min timeav T else timeav in
  let chanav := if cc then Nat.min chanav F else chanav in
  let flagav := if fm then negb (Nat.eqb (Nat.min (if flagav then 1 else 0) F) 0) else flagav in
  if Nat.eqb timeav 0 || Nat.eqb chanav 0 then None
  else
    let n_time := T / timeav * timeav in
    let n_chans := F / chanav * chanav in
    Some (average_kernel (trim a n_time n_chans) n_time n_chans B timeav chanav flagav).
Definition average := average_gen averager_clamp_timeav averager_clamp_chanav averager_flagav_min.

(* ------------------------------------------------------------------ SPEC of one bin *)
Definition csum (l : list cq) : cq := fold_right cadd cq0 l.
Definition qsum (l : list Qc) : Qc := fold_right Qcplus 0%Qc l.
Definition unflagged (l : list sample) : list sample := filter (fun s => negb (s_flag s)) l.

(* weight-averaged unflagged visibilities (unweighted mean of ALL samples of the bin when the unflagged weights
   sum to zero, e.g. everything flagged), summed unflagged weights, AND / OR of the flags *)
Definition spec_bin (flagav : bool) (l : list sample) : sample :=
  let u := unflagged l in
  let W := qsum (map s_w u) in
  (if Qc_is_zero W then cscale (inv_count (List.length l)) (csum (map s_vis l))
   else cdivq (csum (map (fun s => cscale (s_w s) (s_vis s)) u)) W,
   W,
   if flagav then existsb s_flag l else forallb s_flag l).

(* ------------------------------------------------------------------ wire *)
Definition pow2 (k : Z) : positive := Z.to_pos (2 ^ k).
Definition to_Qc (x : sx) : Qc := match x with L [I n; I k] => Q2Qc (n # pow2 k) | _ => 0%Qc end.
Definition of_Qc (q : Qc) : sx := L [I (Qnum q); I (Z.pos (Qden q))].
(* sample on the wire: ((re k) (im k) (w k) flag) *)
Definition to_sample (x : sx) : sample :=
  match x with L [re; im; w; f] => ((to_Qc re, to_Qc im), to_Qc w, to_bool f) | _ => sample0 end.
Definition of_sample (s : sample) : sx :=
  L [of_Qc (fst (s_vis s)); of_Qc (snd (s_vis s)); of_Qc (s_w s); of_bool (s_flag s)].
Definition to_arr3 {A} (f : sx -> A) (x : sx) : arr3 A :=
  map (fun r => map (fun c => map f (to_list c)) (to_list r)) (to_list x).
Definition of_arr3 {A} (f : A -> sx) (a : arr3 A) : sx :=
  L (map (fun r => L (map (fun c => L (map f c)) r)) a).

(* (T F B timeav chanav flagav samples) -> (1 model spec) | (0)
   spec: every bin computed by spec_bin from the samples whose (t, c) lie in the bin *)
Definition wire_155 (x : sx) : sx :=
  match x with
  | L [T; F; B; timeav; chanav; flagav; a] =>
      let T := to_nat T in let F := to_nat F in let B := to_nat B in
      let timeav := to_nat timeav in let chanav := to_nat chanav in let flagav := to_bool flagav in
      let a := to_arr3 to_sample a in
      match average a T F B timeav chanav flagav with
      | None => L [I 0]
      | Some r =>
          let ta := if averager_clamp_timeav then Nat.min timeav T else timeav in
          let ca := if averager_clamp_chanav then Nat.min chanav F else chanav in
          let spec := map (fun i => map (fun j => map (fun b =>
                        spec_bin flagav (map (fun tc => get3 a sample0 (fst tc) (snd tc) b)
                                             (filter (fun tc => Nat.eqb (fst tc / ta) i && Nat.eqb (snd tc / ca) j)
                                                     (list_prod (seq 0 T) (seq 0 F)))))
                        (seq 0 B)) (seq 0 (F / ca))) (seq 0 (T / ta)) in
          L [I 1; of_arr3 of_sample r; of_arr3 of_sample spec]
      end
  | _ => sx_err
  end.
