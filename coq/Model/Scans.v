(* C03: the generators DataSet.scans() / DataSet.compscans() (katdal/dataset.py:925-1003) on top of the model of
   select() (Model/Select.v, C02), and the segmentation of an observation into scans / compound scans / targets
   done by the format classes (visdatav4.py:417-485, h5datav3.py:546-588, h5datav2.py:336-372, h5datav1.py:223-244)
   on top of the model of CategoricalData (Model/Categorical.v, C11).  Definitions only: model, spec, wire.

   The skeleton constants of the two generators (keyword of the select() in the loop, its reset, the key popped
   after the yield, the reset of the final re-select) are NOT written here: they come from Gen/Generated.v, which
   the translator item harness/vh/items/c03.py regenerates from the source on every run. *)
From Coq Require Import ZArith List Bool String Arith.
From KV Require Import Base.Sx Base.Str Base.SelSlice Gen.Generated Model.Select.
From KV Require Model.Categorical.
Import ListNotations.
Open Scope Z_scope.

(* ================================================================================================ *)
(* PART 1: the generators                                                                            *)

Inductive which := WScans | WCompscans.

Definition it_key (w : which) : string := match w with WScans => it_scans_key | WCompscans => it_compscans_key end.
Definition it_yield_reset (w : which) : string :=
  match w with WScans => it_scans_yield_reset | WCompscans => it_compscans_yield_reset end.
Definition it_pop (w : which) : string := match w with WScans => it_scans_pop | WCompscans => it_compscans_pop end.
Definition it_final_reset (w : which) : string :=
  match w with WScans => it_scans_final_reset | WCompscans => it_compscans_final_reset end.
(* self.scan_indices / self.compscan_indices / self.target_indices: which per-dump index sensor the list comes from.
   The attribute -> sensor table is read from the last statements of select() (sel_indices_attrs, each
   `self.<attr> = sorted(set(self.sensor[<sensor>]))`); the sensor -> field map is the reading of the observation. *)
Definition sensor_field (sensor : string) : dump -> Z :=
  if String.eqb sensor "Observation/scan_index" then d_scan
  else if String.eqb sensor "Observation/compscan_index" then d_cscan
  else if String.eqb sensor "Observation/target_index" then d_target
  else fun _ => -1.
Definition attr_field (attr : string) : dump -> Z :=
  match find (fun p => String.eqb (fst p) attr) sel_indices_attrs with
  | Some p => sensor_field (snd p)
  | None => fun _ => -1
  end.
Definition it_field (w : which) : dump -> Z :=
  match w with WScans => attr_field it_scans_field | WCompscans => attr_field it_compscans_field end.
(* self.target_indices (the attribute name is fixed by the shape test of the translator item) *)
Definition it_tfield : dump -> Z := attr_field "target_indices".
(* which target of the dumps shown the generator yields (translated from the `target = ...` statement of each generator):
     "lowest": self.catalogue.targets[self.target_indices[0]]                       (src = the attribute)
     "first" : self.catalogue.targets[self.sensor['Observation/target_index'][0]]   (src = the per-dump sensor: first dump in time)
   (compscans() yields the FIRST target since the repair of C03-F2) *)
Definition it_target_pick (w : which) : string :=
  match w with WScans => it_scans_target_pick | WCompscans => it_compscans_target_pick end.
Definition it_target_src (w : which) : string :=
  match w with WScans => it_scans_target_src | WCompscans => it_compscans_target_src end.

Definition cdz := @Categorical.cd Z.
Definition zd : Z := -1.

(* the observation of Select.v plus the two event-based sensors the generators index by EVENT number:
   Observation/scan_state and Observation/label (unique values are ids) *)
Record sobs := { so : obs; so_state : cdz; so_label : cdz }.
Definition it_names (O : sobs) (w : which) : cdz :=
  match w with
  | WScans => if String.eqb it_scans_name_sensor "Observation/scan_state" then so_state O else so_label O
  | WCompscans => if String.eqb it_compscans_name_sensor "Observation/label" then so_label O else so_state O
  end.
(* data.unique_values[data.indices[v]] ; IndexError = None *)
Definition name_of (O : sobs) (w : which) (v : Z) : option Z :=
  if v <? 0 then None else
  match nth_error (Categorical.idx (it_names O w)) (Z.to_nat v) with
  | Some i => nth_error (Categorical.uv (it_names O w)) i
  | None => None
  end.

(* sorted(set(...)) *)
Fixpoint insert_uniq (x : Z) (l : list Z) : list Z :=
  match l with
  | [] => [x]
  | y :: t => if x <? y then x :: l else if x =? y then l else y :: insert_uniq x t
  end.
Definition sort_uniq (l : list Z) : list Z := fold_right insert_uniq [] l.

(* the dumps kept by a time mask, in time order; sorted(set(self.sensor['Observation/<x>_index'])) *)
Definition kept_dumps (o : obs) (m : list bool) : list dump := map snd (filter fst (combine m (o_dumps o))).
Definition indices_of (f : dump -> Z) (o : obs) (m : list bool) : list Z := sort_uniq (map f (kept_dumps o m)).

(* the index into catalogue.targets; IndexError on an empty selection = None *)
Definition pick_target (w : which) (o : obs) (m : list bool) : option Z :=
  if String.eqb (it_target_pick w) "first"
  then hd_error (map (sensor_field (it_target_src w)) (kept_dumps o m))
  else hd_error (indices_of (attr_field (it_target_src w)) o m).

Record yielded (B : Type) := { y_index : Z; y_name : Z; y_target : Z; y_st : st; y_body : B }.
Arguments y_index {B}. Arguments y_name {B}. Arguments y_target {B}. Arguments y_st {B}. Arguments y_body {B}.

(* the keyword arguments of self.select(scans=scan, reset='') *)
Definition yield_kw (w : which) (v : Z) : kwargs :=
  [(it_key w, VScans [SIdx v]); ("reset"%string, VStr (it_yield_reset w))].

(* the for loop.  `body` is what the consumer does between two resumptions of the generator (it sees the data set
   in the yielded state and may itself run another generator to exhaustion: nesting); `old` is old_timekeep. *)
Fixpoint it_loop {B} (O : sobs) (w : which) (old : list bool) (body : st -> res (B * st))
                 (l : list Z) (s : st) : res (list (yielded B) * st) :=
  match l with
  | [] => Ok ([], s)
  | v :: rest =>
      match select (so O) s (yield_kw w v) with
      | Err e => Err e
      | Ok s1 =>
          match name_of O w v, pick_target w (so O) (tk s1) with
          | Some nm, Some t =>
              match body s1 with
              | Err e => Err e
              | Ok (b, s2) =>
                  (* self._set_keep(old_timekeep.copy()); self._selection.pop('scans', None) *)
                  let s3 := set_sel (remove_key (it_pop w) (sel s2)) (mset DT old s2) in
                  match it_loop O w old body rest s3 with
                  | Err e => Err e
                  | Ok (ys, sf) =>
                      Ok ({| y_index := v; y_name := nm; y_target := t; y_st := s1; y_body := b |} :: ys, sf)
                  end
              end
          | _, _ => Err EFail           (* IndexError *)
          end
      end
  end.

(* the whole generator, run to exhaustion *)
Definition iterate {B} (O : sobs) (w : which) (body : st -> res (B * st)) (s : st) : res (list (yielded B) * st) :=
  let l := indices_of (it_field w) (so O) (tk s) in
  (* preselection = dict(self._selection.items()); preselection['reset'] = ... *)
  let presel := set_key "reset" (VStr (it_final_reset w)) (sel s) in
  match it_loop O w (tk s) body l s with
  | Err e => Err e
  | Ok (ys, s') =>
      match select (so O) s' presel with
      | Ok sf => Ok (ys, sf)
      | Err e => Err e
      end
  end.

Definition no_body (s : st) : res (unit * st) := Ok (tt, s).
(* for ... in d.scans(): pass *)
Definition iterate_plain (O : sobs) (w : which) (s : st) := iterate O w no_body s.
(* for ... in d.compscans(): for ... in d.scans(): pass *)
Definition iterate_nested (O : sobs) (outer inner : which) (s : st) :=
  iterate O outer (fun s1 => iterate_plain O inner s1) s.

(* ---------------------------------------------------------------- SPEC (property statement) *)
(* what the statement promises for a time mask m: one item per index present in the kept dumps, increasing;
   mask of the item = m AND (index of the dump = i); its name (state / label) and target are those of its dumps
   (first dump in time order; lowest-numbered target for comparison with the code's choice) *)
Definition namefield (w : which) : dump -> Z :=
  match w with WScans => d_state | WCompscans => d_label end.
Definition specfield (w : which) : dump -> Z :=
  match w with WScans => d_scan | WCompscans => d_cscan end.
Record sitem_spec := { sp_index : Z; sp_name : Z; sp_first_target : Z; sp_targets : list Z; sp_mask : list bool }.
Definition restrict (o : obs) (f : dump -> Z) (m : list bool) (i : Z) : list bool :=
  map (fun p => fst p && (f (snd p) =? i)) (combine m (o_dumps o)).
Definition spec_iter (o : obs) (w : which) (m : list bool) : list sitem_spec :=
  map (fun i => let mi := restrict o (specfield w) m i in
                let ds := kept_dumps o mi in
                {| sp_index := i; sp_name := match ds with d :: _ => namefield w d | [] => zd end;
                   sp_first_target := match ds with d :: _ => d_target d | [] => zd end;
                   sp_targets := sort_uniq (map d_target ds); sp_mask := mi |})
      (indices_of (specfield w) o m).

(* ---------------------------------------------------------------- PART 1b: abandoned iteration, selecting bodies *)
(* The consumer leaves the loop (break, return, exception, generator closed or garbage collected) while item
   number n (0-based) is current: the generator has no try/finally, so NOTHING after that yield runs - neither
   _set_keep(old_timekeep) nor _selection.pop(key) nor the final re-select of the saved criteria.  The first n items were
   complete iterations.  If the selection has n items or fewer, the loop ends normally. *)
Record abandoned := { ab_index : Z; ab_name : Z; ab_target : Z; ab_st : st }.
Definition iterate_break {B} (O : sobs) (w : which) (body : st -> res (B * st)) (n : nat) (s : st)
  : res (list (yielded B) * option abandoned * st) :=
  let l := indices_of (it_field w) (so O) (tk s) in
  match nth_error l n with
  | None => match iterate O w body s with Ok (ys, sf) => Ok (ys, None, sf) | Err e => Err e end
  | Some v =>
      match it_loop O w (tk s) body (firstn n l) s with
      | Err e => Err e
      | Ok (ys, s') =>
          match select (so O) s' (yield_kw w v) with
          | Err e => Err e
          | Ok s1 =>
              match name_of O w v, pick_target w (so O) (tk s1) with
              | Some nm, Some t => Ok (ys, Some {| ab_index := v; ab_name := nm; ab_target := t; ab_st := s1 |}, s1)
              | _, _ => Err EFail
              end
          end
      end
  end.

(* nested use where the INNER loop is abandoned while its item number n is current, at every outer item:
     for ... in d.compscans():
         for ... in d.scans(): ...; break
   The inner generator leaves its <key> = item in _selection (nothing after its yield runs); the outer generator then
   restores the time mask and pops ITS key only. *)
Definition inner_break (O : sobs) (inner : which) (n : nat) (s1 : st)
  : res ((list (yielded unit) * option abandoned) * st) :=
  match iterate_break O inner no_body n s1 with Ok (ys, ab, sf) => Ok ((ys, ab), sf) | Err e => Err e end.
Definition iterate_nested_break (O : sobs) (outer inner : which) (n : nat) (s : st) :=
  iterate O outer (inner_break O inner n) s.

(* a loop body that itself calls select() (any number of calls); result of the body = the state it leaves *)
Fixpoint run_calls (o : obs) (s : st) (calls : list kwargs) : res st :=
  match calls with
  | [] => Ok s
  | c :: rest => match select o s c with Ok s' => run_calls o s' rest | Err e => Err e end
  end.
Definition body_calls (O : sobs) (calls : list kwargs) (s1 : st) : res (st * st) :=
  match run_calls (so O) s1 calls with Ok s2 => Ok (s2, s2) | Err e => Err e end.

(* ================================================================================================ *)
(* PART 2: segmentation of an observation (format classes)                                            *)
Open Scope nat_scope.

(* x.events, x.indices = x.events[1:], x.indices[1:]; x.events[0] = 0 *)
Definition drop_first (c : cdz) : cdz := Categorical.mk (Categorical.uv c) (tl (Categorical.idx c)) (0 :: tl (tl (Categorical.ev c))).
(* x[p] for an integer dump p *)
Definition value_at (c : cdz) (p : nat) : option Z :=
  match Categorical.lookup c p with Some i => Some (nth i (Categorical.uv c) zd) | None => None end.
Definition opt_is (o : option Z) (v : Z) : bool := match o with Some x => Z.eqb x v | None => false end.

(* ids of the strings the pipelines test for: 'slew', 'stop', '' (removed from the labels), 'Nothing, special',
   '' (the label added on dump 0) *)
Record params := { p_slew : Z; p_stop : Z; p_empty : Z; p_nothing : Z; p_addlabel : Z }.

Inductive fmt := V4 | V3 | V2.

(* the numbers in the decisions of the pipelines, read from the source of each format class by the translator item
   item_segmentation (Gen/Generated.v, names seg_FMT_...); the comparison operators and the statement order are fixed by
   the shape test of that item *)
Record segk := { k_slew_len : nat; k_slew_evi : nat; k_slew_ev : nat; k_slew_dump : nat;
                 k_lab_uv : nat; k_lab_first : nat; k_lab_add : nat;
                 k_noth_len : nat; k_noth_dump : nat; k_stop_dump : nat; k_dist : nat }.
Definition segk_of (f : fmt) : segk :=
  let n := Z.to_nat in
  match f with
  | V4 => {| k_slew_len := n seg_v4_slew_len_gt; k_slew_evi := n seg_v4_slew_event_index; k_slew_ev := n seg_v4_slew_event_value;
             k_slew_dump := n seg_v4_slew_dump; k_lab_uv := n seg_v4_label_uv_gt; k_lab_first := n seg_v4_label_first_gt;
             k_lab_add := n seg_v4_label_add_event; k_noth_len := n seg_v4_nothing_len_gt; k_noth_dump := n seg_v4_nothing_dump;
             k_stop_dump := n seg_v4_stop_dump; k_dist := n cat_match_dist_default |}
  | V3 => {| k_slew_len := n seg_v3_slew_len_gt; k_slew_evi := n seg_v3_slew_event_index; k_slew_ev := n seg_v3_slew_event_value;
             k_slew_dump := n seg_v3_slew_dump; k_lab_uv := n seg_v3_label_uv_gt; k_lab_first := n seg_v3_label_first_gt;
             k_lab_add := n seg_v3_label_add_event; k_noth_len := n seg_v3_nothing_len_gt; k_noth_dump := n seg_v3_nothing_dump;
             k_stop_dump := n seg_v3_stop_dump; k_dist := n cat_match_dist_default |}
  | V2 => {| k_slew_len := n seg_v2_slew_len_gt; k_slew_evi := n seg_v2_slew_event_index; k_slew_ev := n seg_v2_slew_event_value;
             k_slew_dump := n seg_v2_slew_dump; k_lab_uv := n seg_v2_label_uv_gt; k_lab_first := n seg_v2_label_first_gt;
             k_lab_add := n seg_v2_label_add_event; k_noth_len := n seg_v2_nothing_len_gt; k_noth_dump := n seg_v2_nothing_dump;
             k_stop_dump := n seg_v2_stop_dump; k_dist := n cat_match_dist_default |}
  end.

(* if len(scan) > 1 and scan.events[1] == 1 and scan[1] == 'slew': drop the first event *)
Definition slew_fix (K : segk) (P : params) (scan : cdz) : cdz :=
  if (k_slew_len K <? List.length (Categorical.idx scan)) && (nth (k_slew_evi K) (Categorical.ev scan) 0 =? k_slew_ev K)
     && opt_is (value_at scan (k_slew_dump K)) (p_slew P)
  then drop_first scan else scan.
(* if len(label.unique_values) > 1: label.remove('') *)
Definition label_clean (K : segk) (P : params) (label : cdz) : cdz :=
  if k_lab_uv K <? List.length (Categorical.uv label) then Categorical.remove Z.eqb label (p_empty P) else label.
(* CategoricalData(list(range(len(x))), x.events) *)
Definition index_cd (c : cdz) : cdz := Categorical.make Z.eqb (map Z.of_nat (seq 0 (List.length (Categorical.idx c)))) (Categorical.ev c).
(* CategoricalData(target.indices, target.events) *)
Definition tindex_cd (c : cdz) : cdz := Categorical.make Z.eqb (map Z.of_nat (Categorical.idx c)) (Categorical.ev c).

(* v4: the loop that removes an initial target left over while the antennas are stopped;
   result: should the first target event be dropped?  (`is` on unique values = equality of their indices) *)
Fixpoint stop_scan (K : segk) (P : params) (t : cdz) (segs : list (nat * nat * Z)) : option bool :=
  match segs with
  | [] => Some false
  | (s, _, state) :: rest =>
      match Categorical.lookup t s, Categorical.lookup t (k_stop_dump K) with
      | Some a, Some b =>
          if Z.eqb state (p_stop P) && (a =? b) then stop_scan K P t rest else Some (negb (a =? b))
      | _, _ => None
      end
  end.

Record seg := { sg_state : cdz; sg_scan : cdz; sg_label : cdz; sg_cscan : cdz; sg_target : cdz; sg_tindex : cdz }.

Definition target_post (f : fmt) (P : params) (scan t : cdz) : option cdz :=
  match f with
  | V4 =>
      match Categorical.remove_repeats t with
      | None => None
      | Some t1 =>
          match stop_scan (segk_of f) P t1 (Categorical.segments zd scan) with
          | None => None
          | Some true => let t2 := drop_first t1 in Categorical.align zd t2 (Categorical.ev t2)
          | Some false => Some t1
          end
      end
  | _ => Some t
  end.

(* act / label / target: the categorical sensors as extracted by sensor_to_categorical (C10) *)
Definition segment (f : fmt) (P : params) (act label target : cdz) : option seg :=
  let K := segk_of f in
  let scan0 := slew_fix K P act in
  let label1 := label_clean K P label in
  (* scan.add_unmatched(label.events): match_dist is the default of categorical.py (C11's translated constant) *)
  let scan := Categorical.add_unmatched Z.eqb scan0 (Categorical.ev label1) (k_dist K) in
  match Categorical.align zd label1 (Categorical.ev scan) with
  | None => None
  | Some label2 =>
      match (if k_lab_first K <? hd 0 (Categorical.ev label2) then Categorical.add Z.eqb label2 (k_lab_add K) (Some (p_addlabel P))
             else Some label2) with
      | None => None
      | Some label3 =>
          (* v3, RTS workaround: if len(target) > 1 and target[0] == 'Nothing, special' *)
          let target1 := match f with
                         | V3 => if (k_noth_len K <? List.length (Categorical.idx target))
                                    && opt_is (value_at target (k_noth_dump K)) (p_nothing P)
                                 then drop_first target else target
                         | _ => target
                         end in
          match Categorical.align zd target1 (Categorical.ev scan) with
          | None => None
          | Some target2 =>
              match target_post f P scan target2 with
              | None => None
              | Some target3 =>
                  Some {| sg_state := scan; sg_scan := index_cd scan; sg_label := label3; sg_cscan := index_cd label3;
                          sg_target := target3; sg_tindex := tindex_cd target3 |}
              end
          end
      end
  end.

(* v1: the file is already cut into scan groups (segs = their boundaries); one state, compscan group name,
   compscan label and target per scan group *)
Definition segment_v1 (states groups labels targets : list Z) (segs : list nat) : option seg :=
  let scan := Categorical.make Z.eqb states segs in
  match Categorical.remove_repeats (Categorical.make Z.eqb groups segs) with
  | None => None
  | Some cs =>
      match Categorical.align zd (Categorical.make Z.eqb labels segs) (Categorical.ev cs), Categorical.align zd (Categorical.make Z.eqb targets segs) (Categorical.ev cs) with
      | Some label, Some target =>
          Some {| sg_state := scan; sg_scan := index_cd scan; sg_label := label; sg_cscan := index_cd label;
                  sg_target := target; sg_tindex := tindex_cd target |}
      | _, _ => None
      end
  end.

(* ---------------------------------------------------------------- SPEC: every dump exactly once *)
(* a per-dump list of indices numbered consecutively from zero in time order *)
Fixpoint steps_up (x : Z) (l : list Z) : bool :=
  match l with [] => true | y :: t => (Z.eqb y x || Z.eqb y (x + 1)) && steps_up y t end.
Definition numbered (l : list Z) : bool := match l with [] => true | x :: t => Z.eqb x 0 && steps_up 0 t end.
(* decidable well-formedness of one categorical series over N dumps: starts at dump 0, ends at N, strictly
   increasing events, one more event than indices, indices in range *)
Fixpoint incrb (s : nat) (r : list nat) : bool := match r with [] => true | e :: r' => (s <? e) && incrb e r' end.
Definition cd_ok (N : nat) (c : cdz) : bool :=
  match Categorical.ev c with
  | [] => false
  | s :: r => (s =? 0) && incrb s r && (last (Categorical.ev c) 0 =? N) && (List.length (Categorical.ev c) =? S (List.length (Categorical.idx c)))
              && forallb (fun i => i <? List.length (Categorical.uv c)) (Categorical.idx c)
  end.
Definition seg_ok (N : nat) (g : seg) : bool :=
  cd_ok N (sg_state g) && cd_ok N (sg_scan g) && cd_ok N (sg_label g) && cd_ok N (sg_cscan g)
  && cd_ok N (sg_target g) && cd_ok N (sg_tindex g)
  && numbered (Categorical.expand zd (sg_scan g)) && numbered (Categorical.expand zd (sg_cscan g)).

(* the observation structure seen by select() and by the generators, built from a segmentation *)
Definition dumps_of_seg (g : seg) (ts : list Z) : list dump :=
  map (fun p => {| d_ts := nth p ts 0%Z;
                   d_scan := nth p (Categorical.expand zd (sg_scan g)) zd; d_state := nth p (Categorical.expand zd (sg_state g)) zd;
                   d_cscan := nth p (Categorical.expand zd (sg_cscan g)) zd; d_label := nth p (Categorical.expand zd (sg_label g)) zd;
                   d_target := nth p (Categorical.expand zd (sg_tindex g)) zd |})
      (seq 0 (Categorical.ndumps (sg_state g))).
Definition sobs_of_seg (g : seg) (o : obs) : sobs :=
  {| so := {| o_dumps := dumps_of_seg g (map d_ts (o_dumps o)); o_half := o_half o; o_targets := o_targets o;
              o_freqs := o_freqs o; o_halfw := o_halfw o; o_cps := o_cps o |};
     so_state := sg_state g; so_label := sg_label g |}.

(* ================================================================================================ *)
(* WIRE                                                                                              *)
Open Scope Z_scope.

Definition to_cd (x : sx) : cdz :=
  match x with
  | L [u; i; e] => Categorical.mk (to_Zs u) (to_nats i) (to_nats e)
  | _ => Categorical.mk [] [] []
  end.
Definition of_cd (c : cdz) : sx := L [of_Zs (Categorical.uv c); of_nats (Categorical.idx c); of_nats (Categorical.ev c); of_Zs (Categorical.expand zd c)].

(* prior history: failing calls are skipped (the harness does not issue them on the implementation) *)
Fixpoint run_prior (o : obs) (s : st) (calls : list kwargs) : list Z * st :=
  match calls with
  | [] => ([], s)
  | c :: rest =>
      match select o s c with
      | Ok s' => let '(l, sf) := run_prior o s' rest in (0 :: l, sf)
      | Err ETypeError => let '(l, sf) := run_prior o s rest in (1 :: l, sf)
      | Err EFail => let '(l, sf) := run_prior o s rest in (2 :: l, sf)
      end
  end.

Definition of_state (s : st) : sx :=
  L [of_bools (tk s); of_bools (fk s); of_bools (bk s); L (map of_string (keys (sel s))); of_atom (wk s); of_atom (flk s)].
Definition of_yield {B} (f : B -> sx) (y : yielded B) : sx :=
  L [I (y_index y); I (y_name y); I (y_target y); of_state (y_st y); f (y_body y)].
Definition of_run {B} (f : B -> sx) (r : res (list (yielded B) * st)) : sx :=
  match r with
  | Ok (ys, sf) => L [I 0; L (map (of_yield f) ys); of_state sf]
  | Err ETypeError => L [I 1]
  | Err EFail => L [I 2]
  end.
Definition of_spec_item (inner : list bool -> sx) (it : sitem_spec) : sx :=
  L [I (sp_index it); I (sp_name it); I (sp_first_target it); of_Zs (sp_targets it); of_bools (sp_mask it);
     inner (sp_mask it)].
Definition which_of (z : Z) : which := if z =? 0 then WScans else WCompscans.

(* (obs state_cd label_cd calls mode outer inner) -> (statuses state_before model spec)
   mode 0: plain iteration with `outer`; mode 1: `inner` nested inside `outer` *)
Definition wire_3 (x : sx) : sx :=
  match x with
  | L [ob; stc; lbc; calls; I mode; I wo; I wi] =>
      let o := to_obs ob in
      let O := {| so := o; so_state := to_cd stc; so_label := to_cd lbc |} in
      let '(statuses, s0) := run_prior o (init o) (map to_kwargs (to_list calls)) in
      let outer := which_of wo in
      let inner := which_of wi in
      let model :=
        if mode =? 0 then of_run (fun _ => L []) (iterate_plain O outer s0)
        else of_run (fun b : list (yielded unit) => L (map (of_yield (fun _ => L [])) b)) (iterate_nested O outer inner s0) in
      let spec :=
        L (map (of_spec_item (fun m => if mode =? 0 then L []
                                       else L (map (of_spec_item (fun _ => L [])) (spec_iter o inner m))))
               (spec_iter o outer (tk s0))) in
      L [of_Zs statuses; of_state s0; model; spec]
  | _ => sx_err
  end.

Definition to_params (x : sx) : params :=
  match to_Zs x with
  | [a; b; c; d] => {| p_slew := a; p_stop := b; p_empty := c; p_nothing := d; p_addlabel := c |}
  | [a; b; c; d; e] => {| p_slew := a; p_stop := b; p_empty := c; p_nothing := d; p_addlabel := e |}
  | _ => {| p_slew := -2; p_stop := -2; p_empty := -2; p_nothing := -2; p_addlabel := -2 |}
  end.
Definition to_series (x : sx) : cdz :=
  match x with L [vs; es] => Categorical.make Z.eqb (to_Zs vs) (to_nats es) | _ => Categorical.mk [] [] [] end.
Definition of_seg (N : nat) (r : option seg) : sx :=
  match r with
  | Some g => L [I 0; of_cd (sg_state g); of_cd (sg_scan g); of_cd (sg_label g); of_cd (sg_cscan g);
                 of_cd (sg_target g); of_cd (sg_tindex g); of_bool (seg_ok N g)]
  | None => L [I 2]
  end.

(* (fmt params N act label target) with each series as (values events) -> segmentation *)
Definition wire_31 (x : sx) : sx :=
  match x with
  | L [I f; ps; n; a; l; t] =>
      let fm := if f =? 4 then V4 else if f =? 3 then V3 else V2 in
      of_seg (to_nat n) (segment fm (to_params ps) (to_series a) (to_series l) (to_series t))
  | _ => sx_err
  end.

(* v1: (N states groups labels targets segs) *)
Definition wire_32 (x : sx) : sx :=
  match x with
  | L [n; st; gr; lb; tg; sg] =>
      of_seg (to_nat n) (segment_v1 (to_Zs st) (to_Zs gr) (to_Zs lb) (to_Zs tg) (to_nats sg))
  | _ => sx_err
  end.

(* (obs state_cd label_cd calls which body_calls break_at) -> (statuses state_before model spec)
   the generator `which` with a loop body that issues the select() calls `body_calls` at every yield; break_at < 0:
   run to exhaustion, else the consumer leaves the loop while item number break_at is current *)
Definition of_abandoned (a : option abandoned) : sx :=
  match a with
  | Some a => L [I (ab_index a); I (ab_name a); I (ab_target a); of_state (ab_st a)]
  | None => L []
  end.
Definition wire_34 (x : sx) : sx :=
  match x with
  | L [ob; stc; lbc; calls; I wo; bcalls; I brk] =>
      let o := to_obs ob in
      let O := {| so := o; so_state := to_cd stc; so_label := to_cd lbc |} in
      let '(statuses, s0) := run_prior o (init o) (map to_kwargs (to_list calls)) in
      let w := which_of wo in
      let body := body_calls O (map to_kwargs (to_list bcalls)) in
      let model :=
        if brk <? 0 then of_run of_state (iterate O w body s0)
        else match iterate_break O w body (Z.to_nat brk) s0 with
             | Ok (ys, ab, sf) => L [I 0; L (map (of_yield of_state) ys); of_abandoned ab; of_state sf]
             | Err ETypeError => L [I 1]
             | Err EFail => L [I 2]
             end in
      let spec := L (map (of_spec_item (fun _ => L [])) (spec_iter o w (tk s0))) in
      L [of_Zs statuses; of_state s0; model; spec]
  | _ => sx_err
  end.

(* (obs state_cd label_cd calls outer inner break_at) -> (statuses state_before model): `inner` nested inside `outer`, the
   inner loop left while its item number break_at is current (at every outer item) *)
Definition wire_35 (x : sx) : sx :=
  match x with
  | L [ob; stc; lbc; calls; I wo; I wi; I brk] =>
      let o := to_obs ob in
      let O := {| so := o; so_state := to_cd stc; so_label := to_cd lbc |} in
      let '(statuses, s0) := run_prior o (init o) (map to_kwargs (to_list calls)) in
      let model := of_run (fun b : list (yielded unit) * option abandoned =>
                             L [L (map (of_yield (fun _ => L [])) (fst b)); of_abandoned (snd b)])
                          (iterate_nested_break O (which_of wo) (which_of wi) (Z.to_nat brk) s0) in
      L [of_Zs statuses; of_state s0; model]
  | _ => sx_err
  end.
