(* C09: S3 transport.  Model of katdal/chunkstore_s3.py: S3ChunkStore.request (the retry loop), _request (exception
   conversion), _raise_for_status, read_array/_DetectTruncation, _read_object, _verify_bucket, get_chunk, and of
   datasources.py: TelstateDataSource.from_url (RDB download); plus the behaviour of urllib3.util.retry.Retry
   (increment / is_exhausted), urllib3's urlopen (status and header-phase retries inside the adapter) and
   requests' translation of urllib3 exceptions that the code relies on.
   Tables and decision chains come from Gen/Generated.v (re-translated from the source at every run). *)
From Coq Require Import ZArith List Bool String.
From KV Require Import Base.Sx Base.Str Gen.Generated.
Import ListNotations.
Open Scope Z_scope.

(* ---------- what the server does with one request ---------- *)
Inductive hkind := HReset | HStall | HClose.
Inductive outcome :=
| Status (c : Z)        (* response with HTTP status c and an empty body *)
| Trunc (k : nat)       (* 200, full Content-Length, k body bytes, then end of stream *)
| Reset (k : nat)       (* 200, full Content-Length, k body bytes, then RST *)
| Stall (k : nat)       (* 200, full Content-Length, k body bytes, then silence beyond the read timeout *)
| HFault (h : hkind)    (* reset / silence / close before any byte of the response header *)
| Good.                 (* the complete good response *)

(* ---------- urllib3.util.retry.Retry (the counters katdal uses) ---------- *)
Record retry := mkRetry { r_total : option Z; r_connect : option Z; r_read : option Z; r_status : option Z }.

Definition dec (o : option Z) : option Z := match o with Some z => Some (z - 1) | None => None end.
(* `[x for x in (total, connect, read, ..., status, ...) if x]` : None and 0 are dropped *)
Definition truthy (o : option Z) : list Z :=
  match o with Some z => if z =? 0 then [] else [z] | None => [] end.
Definition is_exhausted (r : retry) : bool :=
  match truthy (r_total r) ++ truthy (r_connect r) ++ truthy (r_read r) ++ truthy (r_status r) with
  | [] => false
  | c :: t => fold_left Z.min t c <? 0
  end.
Inductive cause := CRead | CStatus.
(* Retry.increment: None = MaxRetryError *)
Definition increment (r : retry) (c : cause) : option retry :=
  let r' := match c with
            | CRead => mkRetry (dec (r_total r)) (r_connect r) (dec (r_read r)) (r_status r)
            | CStatus => mkRetry (dec (r_total r)) (r_connect r) (r_read r) (dec (r_status r))
            end in
  if is_exhausted r' then None else Some r'.

(* ---------- exceptions ---------- *)
Inductive exn :=
| SocketTimeout                 (* socket.timeout while `process` reads a streamed body from httplib *)
| ConnectionReset               (* ConnectionResetError, same place *)
| IncompleteReadX               (* urllib3 IncompleteRead raised by _DetectTruncation / _read_object *)
| ChunkedEncoding               (* requests ChunkedEncodingError: body cut or reset while requests reads .content *)
| ReqConnReadTimeout            (* requests ConnectionError(ReadTimeoutError): read timeout while requests reads .content *)
| ReqConnMaxRetry (timeout : bool) (* requests ConnectionError(MaxRetryError(reason ReadTimeoutError | ProtocolError)):
                                      read retries exhausted inside the adapter, before a response header arrived *)
| ReqRetryError                 (* requests RetryError: status retries exhausted inside the adapter *)
| U3ReadTimeout | U3Protocol | U3MaxRetry.   (* urllib3 ReadTimeoutError, ProtocolError, MaxRetryError *)

(* the names by which the source refers to the classes each exception is an instance of (most specific first) *)
Definition exn_bases (e : exn) : list string :=
  match e with
  | SocketTimeout => ["SocketTimeoutError"]
  | ConnectionReset => ["ConnectionResetError"]
  | IncompleteReadX => ["IncompleteRead"]
  | ChunkedEncoding => ["requests.exceptions.ChunkedEncodingError"; "requests.exceptions.RequestException"]
  | ReqConnReadTimeout | ReqConnMaxRetry _ => ["requests.exceptions.ConnectionError"; "requests.exceptions.RequestException"]
  | ReqRetryError => ["requests.exceptions.RetryError"; "requests.exceptions.RequestException"]
  | U3ReadTimeout => ["ReadTimeoutError"]
  | U3Protocol => ["ProtocolError"]
  | U3MaxRetry => ["MaxRetryError"]
  end%string.
Definition exn_name (e : exn) : string := hd ""%string (exn_bases e).
Definition isinstance (e : exn) (names : list string) : bool :=
  existsb (fun n => mem_string n (exn_bases e)) names.

(* error.args[0] of a requests ConnectionError, and its .reason *)
Definition cause_of (e : exn) : option (exn * option exn) :=
  match e with
  | ReqConnReadTimeout => Some (U3ReadTimeout, None)
  | ReqConnMaxRetry t => Some (U3MaxRetry, Some (if t then U3ReadTimeout else U3Protocol))
  | _ => None
  end.
Definition urllib3_exn (name : string) (dflt : exn) : exn :=
  if String.eqb name "ReadTimeoutError" then U3ReadTimeout
  else if String.eqb name "ProtocolError" then U3Protocol
  else if String.eqb name "MaxRetryError" then U3MaxRetry else dflt.

(* _request: `except A as error: raise X(...)` clauses, then the ConnectionError handler that re-raises the cause *)
Definition request_convert (e : exn) : exn :=
  match find (fun p => isinstance e (fst p)) s3_request_converts with
  | Some p => urllib3_exn (snd p) e
  | None =>
      if isinstance e ["requests.exceptions.ConnectionError"%string] then
        match cause_of e with
        | Some (c, reason) =>
            if existsb (fun u => isinstance c [fst u] &&
                                 match snd u, reason with
                                 | [], _ => true
                                 | rs, Some re => isinstance re rs
                                 | _, None => false
                                 end) s3_request_unwraps
            then c else e
        | None => e
        end
      else e
  end.

(* ---------- results ---------- *)
Inductive err := Glitch | NotFound | Auth | Unavail | InvalidTok | Raw.
Inductive result := Ok (delivered : nat) | Err (e : err).

Definition err_of_name (n : string) : err :=
  if String.eqb n "S3ServerGlitch" then Glitch
  else if String.eqb n "S3ObjectNotFound" then NotFound
  else if String.eqb n "AuthorisationFailed" then Auth
  else if String.eqb n "StoreUnavailable" then Unavail
  else Raw.

(* ChunkStore._standard_errors: exact type first, else the first key of which the exception is an instance;
   an exception not covered by the map escapes as it is (Raw) *)
Definition standardise (e : exn) : err :=
  match find (fun p => String.eqb (fst p) (exn_name e)) s3_error_map with
  | Some p => err_of_name (snd p)
  | None => match find (fun p => mem_string (fst p) (exn_bases e)) s3_error_map with
            | Some p => err_of_name (snd p)
            | None => Raw
            end
  end.

Definition memZ (c : Z) (l : list Z) : bool := existsb (Z.eqb c) l.

(* _raise_for_status *)
Definition raise_for_status (c : Z) (ignored : list Z) : option err :=
  if (s3_status_lo <=? c) && (c <? s3_status_hi) && negb (memZ c ignored) then
    Some (err_of_name (match find (fun p => memZ c (fst p)) s3_status_chain with
                       | Some p => snd p
                       | None => s3_status_else
                       end))
  else None.

(* ---------- reading the body ---------- *)
(* read_array through _DetectTruncation: the successive read()/readinto() sizes (magic+version, header length,
   header, data); each must be satisfied completely, else IncompleteRead.  Returns the bytes consumed. *)
Fixpoint detect_truncation (segs : list nat) (avail : nat) : option nat :=
  match segs with
  | [] => Some O
  | s :: t => if (s <=? avail)%nat
              then match detect_truncation t (avail - s) with Some n => Some (s + n)%nat | None => None end
              else None
  end.

Inductive proc :=
| PChunk (segs : list nat)   (* _read_chunk -> read_array on the raw httplib response *)
| PObject                    (* _read_object: response.content + length_remaining check *)
| PListing.                  (* identity; the caller looks at response.content afterwards *)

Definition streamed (p : proc) : bool :=
  match p with PChunk _ => s3_chunk_streamed | PObject => s3_rdb_streamed | PListing => s3_listing_streamed end.

(* body of a 200 response of declared length len of which `avail` bytes arrive, then `tail` happens *)
Definition body_result (p : proc) (len : nat) (o : outcome) : result + exn :=
  let fault (k : nat) (e_chunk e_content : exn) : result + exn :=
    match p with
    | PChunk segs => match detect_truncation segs (Nat.min k len) with
                     | Some n => inl (Ok n)
                     | None => inr (if (k <? len)%nat then e_chunk else IncompleteReadX)
                     end
    | _ => if (k <? len)%nat then inr e_content else inl (Ok len)
    end in
  match o with
  | Good => fault len IncompleteReadX IncompleteReadX
  | Trunc k => fault k IncompleteReadX ChunkedEncoding
  | Reset k => fault k ConnectionReset ChunkedEncoding
  | Stall k => fault k SocketTimeout ReqConnReadTimeout
  | Status _ =>                       (* an empty body with Content-Length 0: nothing can go missing *)
      match p with
      | PChunk segs => match detect_truncation segs O with Some n => inl (Ok n) | None => inr IncompleteReadX end
      | _ => inl (Ok O)
      end
  | HFault _ => inr U3Protocol                               (* never delivered to katdal *)
  end.

(* ---------- one server answer seen by the adapter (urllib3 urlopen + requests HTTPAdapter.send) ---------- *)
Inductive adapter_res :=
| AResp                     (* a response header arrived and is handed back *)
| ARetry (r : retry)        (* retried inside urlopen with the incremented Retry *)
| ARaise (e : exn).         (* requests raises *)
Definition adapter_step (fl : list Z) (r : retry) (o : outcome) : adapter_res :=
  match o with
  | HFault h => match increment r CRead with
                | Some r' => ARetry r'
                | None => ARaise (ReqConnMaxRetry (match h with HStall => true | _ => false end))
                end
  | Status c => if memZ c fl
                then match increment r CStatus with Some r' => ARetry r' | None => ARaise ReqRetryError end
                else AResp
  | _ => AResp
  end.

(* ---------- what katdal does with a delivered response ---------- *)
Inductive loop_res := LDone (res : result) | LRetry (r : retry).

(* an exception leaving session.request / process: converted by _request, then either caught by the retry loop
   (`except (ReadTimeoutError, ProtocolError)`: increment, MaxRetryError when exhausted) or mapped by error_map *)
Definition handle_exn (r : retry) (e : exn) : loop_res :=
  let e' := request_convert e in
  if mem_string (exn_name e') s3_loop_catches
  then match increment r CRead with
       | Some r' => LRetry r'
       | None => LDone (Err (standardise U3MaxRetry))
       end
  else LDone (Err (standardise e')).

(* r0 = katdal's local `retries` at the top of the loop iteration, ra = response.raw.retries *)
Definition katdal_step (p : proc) (len : nat) (ignored : list Z) (r0 ra : retry) (o : outcome) : loop_res :=
  let status_err := match o with Status c => raise_for_status c ignored | _ => None end in
  if streamed p then
    (* body read by `process`, after _raise_for_status and `retries = response.raw.retries.new()` *)
    match status_err with
    | Some e => LDone (Err e)
    | None => match body_result p len o with inl res => LDone res | inr e => handle_exn ra e end
    end
  else
    (* body downloaded by requests inside session.request, before katdal sees the response *)
    match body_result p len o with
    | inr e => handle_exn r0 e
    | inl res => match status_err with Some e => LDone (Err e) | None => LDone res end
    end.

(* ---------- S3ChunkStore.request: (result, number of requests sent) ---------- *)
Fixpoint request_loop (fl : list Z) (p : proc) (len : nat) (ignored : list Z) (r0 ra : retry) (fs : list outcome)
  : result * nat :=
  match fs with
  | [] => (* after the faults the server answers well *)
      match katdal_step p len ignored r0 ra Good with
      | LDone res => (res, 1%nat)
      | LRetry _ => (Err Raw, 1%nat)     (* a good response that is itself incomplete: outside the domain *)
      end
  | o :: rest =>
      let continue (l : loop_res) : result * nat :=
        match l with
        | LDone res => (res, 1%nat)
        | LRetry r' => let '(res, n) := request_loop fl p len ignored r' r' rest in (res, S n)
        end in
      match adapter_step fl ra o with
      | ARetry ra' => let '(res, n) := request_loop fl p len ignored r0 ra' rest in (res, S n)
      | ARaise e => continue (handle_exn r0 e)
      | AResp => continue (katdal_step p len ignored r0 ra o)
      end
  end.

Record config := mkConfig { c_retry : retry; c_forcelist : list Z }.
Definition request (cfg : config) (p : proc) (len : nat) (ignored : list Z) (fs : list outcome) : result * nat :=
  request_loop (c_forcelist cfg) p len ignored (c_retry cfg) (c_retry cfg) fs.

(* S3ChunkStore.__init__ : retries given as (connect, read) ints *)
Definition default_config (connect read : Z) : config :=
  mkConfig (mkRetry (Some 10) (Some connect) (Some read) (Some s3_default_status))
           (if s3_default_forcelist_is_glitches then s3_server_glitches else []).

(* the `retries` argument of S3ChunkStore: an int stands for both connect and read retries (_connect_read_tuple), a pair
   is (connect, read), a urllib3 Retry object is used as it is *)
Inductive retries_arg := RInt (n : Z) | RPair (c r : Z) | RObj (r : retry) (fl : list Z).
Definition store_config (a : retries_arg) : config :=
  match a with RInt n => default_config n n | RPair c r => default_config c r | RObj r fl => mkConfig r fl end.
(* S3ChunkStore(url) with no `retries` argument at all *)
Definition default_store : config := store_config (RInt s3_default_retries).

(* ---------- get_chunk with the bucket check on 404 ---------- *)
Inductive bucket := BFull | BEmpty | BMissing.
Record chunk_run := mkRun { g_result : result; g_obj_requests : nat; g_bucket_requests : nat; g_verified : bool }.

(* a missing bucket answers the listing with 404 *)
Definition listing_script (b : bucket) (fsb : list outcome) : list outcome :=
  match b with BMissing => fsb ++ [Status 404] | _ => fsb end.

Definition verify_bucket (cfg : config) (blen : nat) (b : bucket) (fsb : list outcome) : option err * nat * bool :=
  let '(resb, m) := request cfg PListing blen [] (listing_script b fsb) in
  match resb with
  | Err NotFound => (Some Unavail, m, false)          (* bucket missing *)
  | Err e => (Some e, m, false)
  | Ok _ => match b with
            | BFull => (None, m, true)                (* `<Contents>` present: bucket verified *)
            | _ => (Some Unavail, m, false)           (* empty bucket *)
            end
  end.

Definition get_chunk (cfg : config) (segs : list nat) (len blen : nat) (verified : bool) (b : bucket)
           (fs fsb : list outcome) : chunk_run :=
  let '(res, n) := request cfg (PChunk segs) len [] fs in
  match res with
  | Err NotFound =>
      if verified then mkRun res n O true
      else match verify_bucket cfg blen b fsb with
           | (Some e, m, v) => mkRun (Err e) n m v
           | (None, m, v) => mkRun res n m v
           end
  | _ => mkRun res n O verified
  end.

(* TelstateDataSource.from_url: every ChunkStoreError becomes DataSourceNotFound *)
Inductive rdb_result := RdbOk (delivered : nat) | RdbNotFound | RdbRaw.
Definition rdb_fetch (cfg : config) (len : nat) (fs : list outcome) : rdb_result * nat :=
  let '(res, n) := request cfg PObject len [] fs in
  (match res with Ok d => RdbOk d | Err Raw => RdbRaw | Err _ => RdbNotFound end, n).

(* ---------- the other request sites of the public API: put_chunk, is_complete, mark_complete ----------
   All three go through S3ChunkStore.request with the default `process` (identity) and without stream=True, like the
   bucket listing: PListing.  `len` is the length of the body of the server's 200 answer (nothing for a PUT and for the
   empty `complete` marker object). *)
Definition err_name (e : err) : string :=
  match e with
  | Glitch => "S3ServerGlitch" | NotFound => "S3ObjectNotFound" | Auth => "AuthorisationFailed"
  | Unavail => "StoreUnavailable" | InvalidTok => "InvalidToken" | Raw => ""
  end.
Definition put_chunk (cfg : config) (len : nat) (fs : list outcome) : result * nat := request cfg PListing len [] fs.

(* is_complete: `except <s3_is_complete_catches>: return False`; the exceptions of this module derived from that class
   are s3_chunk_not_found *)
Inductive complete_res := CTrue | CFalse | CRaise (e : err).
Definition caught_by_is_complete (e : err) : bool :=
  String.eqb s3_is_complete_catches "ChunkNotFound" && mem_string (err_name e) s3_chunk_not_found.
Definition is_complete (cfg : config) (len : nat) (fs : list outcome) : complete_res * nat :=
  let '(res, n) := request cfg PListing len [] fs in
  (match res with Ok _ => CTrue | Err e => if caught_by_is_complete e then CFalse else CRaise e end, n).

(* mark_complete: create_array = PUT of the bucket with s3_create_bucket_ignored (409: it exists already) treated
   as success, then PUT of the empty marker object.  One fault script for the whole call: every request consumes one
   entry.  (result, bucket requests, marker requests) *)
Definition mark_complete_with (ign : list Z) (cfg : config) (fs : list outcome) : result * nat * nat :=
  let '(rb, nb) := request cfg PListing O ign fs in
  match rb with
  | Ok _ => let '(r, n) := request cfg PListing O [] (skipn nb fs) in (r, nb, n)
  | Err e => (Err e, nb, O)
  end.
Definition mark_complete := mark_complete_with s3_create_bucket_ignored.
(* SPEC of the bucket step: "the bucket exists already" (409) is not an error - and nothing else is overlooked *)
Definition spec_mark_complete := mark_complete_with [409].

(* =====================================================================================
   SPEC: the property, by counting faults
   ===================================================================================== *)
Definition read_fault (len : nat) (o : outcome) : bool :=
  match o with
  | Trunc k | Reset k | Stall k => (k <? len)%nat
  | HFault _ => true
  | _ => false
  end.
Definition status_fault (fl : list Z) (o : outcome) : bool :=
  match o with Status c => memZ c fl | _ => false end.
Definition transient (fl : list Z) (len : nat) (o : outcome) : bool := read_fault len o || status_fault fl o.

Fixpoint take_while {A} (f : A -> bool) (l : list A) : list A :=
  match l with [] => [] | x :: t => if f x then x :: take_while f t else [] end.
Fixpoint drop_while {A} (f : A -> bool) (l : list A) : list A :=
  match l with [] => [] | x :: t => if f x then drop_while f t else l end.
Definition count {A} (f : A -> bool) (l : list A) : Z := Z.of_nat (List.length (filter f l)).

Definition within (n : Z) (budget : option Z) : bool := match budget with Some b => n <=? b | None => true end.
(* the faults of p fit in the budget *)
Definition fits (fl : list Z) (len : nat) (b : retry) (p : list outcome) : bool :=
  within (count (read_fault len) p) (r_read b) && within (count (status_fault fl) p) (r_status b)
  && within (Z.of_nat (List.length p)) (r_total b).

(* permanent statuses, as the property words them *)
Definition spec_status (c : Z) : err :=
  if (c =? 401) || (c =? 403) then Auth else if c =? 404 then NotFound else Unavail.

Definition spec_result (fl : list Z) (len : nat) (b : retry) (fs : list outcome) : result :=
  let p := take_while (transient fl len) fs in
  if fits fl len b p then
    match drop_while (transient fl len) fs with
    | Status c :: _ => Err (spec_status c)
    | _ => Ok len                       (* Good, or the end of the fault sequence: the good response *)
    end
  else Err Glitch.

(* requests sent: all transient faults and the final answer if they fit, else up to the first one that does not *)
Fixpoint first_unfit (fl : list Z) (len : nat) (b : retry) (seen rest : list outcome) : nat :=
  match rest with
  | [] => O
  | o :: t => if fits fl len b (seen ++ [o]) then S (first_unfit fl len b (seen ++ [o]) t) else 1%nat
  end.
Definition spec_requests (fl : list Z) (len : nat) (b : retry) (fs : list outcome) : nat :=
  let p := take_while (transient fl len) fs in
  if fits fl len b p then S (List.length p) else first_unfit fl len b [] p.

Definition spec_request (cfg : config) (len : nat) (fs : list outcome) : result * nat :=
  (spec_result (c_forcelist cfg) len (c_retry cfg) fs, spec_requests (c_forcelist cfg) len (c_retry cfg) fs).

(* is_complete by the counting spec: present, absent (404, or the transient faults did not fit the budget), or the
   permanent failure is passed on *)
Definition spec_is_complete (cfg : config) (len : nat) (fs : list outcome) : complete_res :=
  match spec_result (c_forcelist cfg) len (c_retry cfg) fs with
  | Ok _ => CTrue
  | Err NotFound => CFalse
  | Err Glitch => CFalse
  | Err e => CRaise e
  end.

(* 404 rule: a 404 on the object is a missing chunk only if the bucket is known to be, or is found to be, present and
   non-empty.  The property does not say how faults of the listing request itself are budgeted, so the spec takes the
   listing outcome (`listing`) as it comes and only fixes what is made of it. *)
Definition spec_404 (verified : bool) (b : bucket) (listing : result) : result :=
  if verified then Err NotFound
  else match listing with
       | Ok _ => match b with BFull => Err NotFound | _ => Err Unavail end
       | Err NotFound => Err Unavail          (* the bucket itself is missing *)
       | Err e => Err e
       end.
Definition spec_get_chunk (cfg : config) (len blen : nat) (verified : bool) (b : bucket) (fs fsb : list outcome)
  : result :=
  match spec_result (c_forcelist cfg) len (c_retry cfg) fs with
  | Err NotFound => spec_404 verified b (fst (request cfg PListing blen [] (listing_script b fsb)))
  | r => r
  end.

(* domain: statuses are HTTP errors; budgets are non-negative *)
Definition wf_outcome (o : outcome) : bool :=
  match o with Status c => (400 <=? c) && (c <? 600) | _ => true end.
Definition nonneg (o : option Z) : bool := match o with Some z => 0 <=? z | None => true end.
Definition wf_retry (r : retry) : bool :=
  nonneg (r_total r) && nonneg (r_connect r) && nonneg (r_read r) && nonneg (r_status r).
(* 5xx statuses only are retried *)
Definition wf_forcelist (fl : list Z) : bool := forallb (fun c => (500 <=? c) && (c <? 600)) fl.

(* =====================================================================================
   wire
   ===================================================================================== *)
Definition to_outcome (x : sx) : outcome :=
  match x with
  | L [I 0; I c] => Status c
  | L [I 1; I k] => Trunc (Z.to_nat k)
  | L [I 2; I k] => Reset (Z.to_nat k)
  | L [I 3; I k] => Stall (Z.to_nat k)
  | L [I 4; I 0] => HFault HReset
  | L [I 4; I 1] => HFault HStall
  | L [I 4; I _] => HFault HClose
  | _ => Good
  end.
Definition to_outcomes (x : sx) : list outcome := map to_outcome (to_list x).
(* (total connect read status) each () or (z); forcelist *)
Definition to_config (x : sx) : config :=
  match x with
  | L [t; c; r; s; fl] => mkConfig (mkRetry (to_optZ t) (to_optZ c) (to_optZ r) (to_optZ s)) (to_Zs fl)
  | L [I c; I r] => store_config (RPair c r)
  | L [I n] => store_config (RInt n)
  | L [] => default_store
  | _ => default_config 0 0
  end.
Definition of_err (e : err) : Z :=
  match e with Glitch => 1 | NotFound => 2 | Auth => 3 | Unavail => 4 | InvalidTok => 5 | Raw => 9 end.
Definition of_result (r : result) : sx :=
  match r with Ok d => L [I 0; I (Z.of_nat d)] | Err e => L [I (of_err e); I 0] end.
Definition to_bucket (x : sx) : bucket :=
  match x with I 0 => BFull | I 1 => BEmpty | _ => BMissing end.

(* (1 cfg segs blen verified bucket fs fsb) -> (model_result obj_requests bucket_requests verified' spec_result)
   (2 cfg len fs)                           -> (model_result requests spec_result spec_requests)       RDB / object
   (3 cfg segs fs)                          -> (model_result requests spec_result spec_requests)       one chunk request *)
Definition wire_9 (x : sx) : sx :=
  match x with
  | L [I 1; cfg; segs; I blen; v; b; fs; fsb] =>
      let cfg := to_config cfg in
      let segs := to_nats segs in
      let len := fold_right Nat.add O segs in
      let g := get_chunk cfg segs len (Z.to_nat blen) (to_bool v) (to_bucket b) (to_outcomes fs) (to_outcomes fsb) in
      L [of_result (g_result g); of_nat (g_obj_requests g); of_nat (g_bucket_requests g); of_bool (g_verified g);
         of_result (spec_get_chunk cfg len (Z.to_nat blen) (to_bool v) (to_bucket b) (to_outcomes fs) (to_outcomes fsb))]
  | L [I 2; cfg; I len; fs] =>
      let cfg := to_config cfg in
      let '(res, n) := rdb_fetch cfg (Z.to_nat len) (to_outcomes fs) in
      let '(sres, sn) := spec_request cfg (Z.to_nat len) (to_outcomes fs) in
      L [match res with RdbOk d => L [I 0; I (Z.of_nat d)] | RdbNotFound => L [I 1; I 0] | RdbRaw => L [I 9; I 0] end;
         of_nat n; of_result sres; of_nat sn]
  | L [I 4; cfg; I len; fs] =>        (* put_chunk: (model_result requests spec_result spec_requests) *)
      let cfg := to_config cfg in
      let '(res, n) := put_chunk cfg (Z.to_nat len) (to_outcomes fs) in
      let '(sres, sn) := spec_request cfg (Z.to_nat len) (to_outcomes fs) in
      L [of_result res; of_nat n; of_result sres; of_nat sn]
  | L [I 5; cfg; I len; fs] =>        (* is_complete: (model (0 true | 1 false | 2 raise e) requests spec spec_requests) *)
      let cfg := to_config cfg in
      let fs := to_outcomes fs in
      let len := Z.to_nat len in
      let oc (c : complete_res) := match c with CTrue => L [I 0; I 0] | CFalse => L [I 1; I 0] | CRaise e => L [I 2; I (of_err e)] end in
      let '(res, n) := is_complete cfg len fs in
      L [oc res; of_nat n; oc (spec_is_complete cfg len fs); of_nat (spec_requests (c_forcelist cfg) len (c_retry cfg) fs)]
  | L [I 6; cfg; fs] =>               (* mark_complete: (model_result bucket_requests marker_requests spec_result spec_bucket_requests spec_marker_requests) *)
      let '(res, nb, n) := mark_complete (to_config cfg) (to_outcomes fs) in
      let '(sres, snb, sn) := spec_mark_complete (to_config cfg) (to_outcomes fs) in
      L [of_result res; of_nat nb; of_nat n; of_result sres; of_nat snb; of_nat sn]
  | L [I 3; cfg; segs; fs] =>
      let cfg := to_config cfg in
      let segs := to_nats segs in
      let len := fold_right Nat.add O segs in
      let '(res, n) := request cfg (PChunk segs) len [] (to_outcomes fs) in
      let '(sres, sn) := spec_request cfg len (to_outcomes fs) in
      L [of_result res; of_nat n; of_result sres; of_nat sn]
  | _ => sx_err
  end.
