(* C17 (extension): visibilities, flags and weights of a PRESELECTED data set, over the chunk-store model of C06
   (Model/Prune.v: _prune_chunks + unit-step slicing of get_dask_array; Model/LostMap.v: ChunkStoreVisFlagsWeights with
   its lost-chunk map, _default_zero, weights * weights_channel, _align_chunk_info).  Those models are imported
   unchanged; here they are instantiated with the index TelstateDataSource builds from the preselect dictionary
   (Model/TimeFreqPre.v: pre_index, from the generated axis order) and with no index (the data set opened whole). *)
From Coq Require Import ZArith List Bool String.
From KV Require Import Base.Sx Base.Str Gen.Generated Model.Prune Model.LostMap Model.TimeFreqPre.
Import ListNotations.
Open Scope Z_scope.

(* the same store (chunking, absent chunks, stored values) opened with another preselect_index *)
Definition with_win (c : cfg) (w : list (option (Z * Z))) : cfg :=
  {| c_chunks := c_chunks c; c_win := w; c_miss := c_miss c; c_dat := c_dat c |}.
Definition whole (c : cfg) : cfg := with_win c [].
(* dumps x channels of the stored visibilities *)
Definition shape01 (c : cfg) : list Z := firstn 2 (map zsum (arr_chunks c A_VIS)).
(* ... opened by TelstateDataSource(..., preselect=p) *)
Definition opened (c : cfg) (p : presel) : cfg := with_win c (pre_index (shape01 c) p).
(* where element q of the preselected data set sits in the whole one: q + start of each preselected range *)
Definition abs_pos (c : cfg) (p : presel) (q : list Z) : list Z := gpos (opened c p) q.

(* (chunks preselect lost data) ->
   (shape of the preselected data set, preselect_index,
    vis / weights / flags of the preselected data set in C order,
    vis / weights / flags of the WHOLE data set at the corresponding positions) *)
Definition wire_172 (x : sx) : sx :=
  match x with
  | L [chunks; p; lost; data] =>
      let c0 := mk_cfg (to_chunks3 chunks) [] (to_chunks3 lost) (map to_Zs (to_list data)) in
      let pr := to_presel p in
      let c := opened c0 pr in
      let shape := map zsum (chunks_of (darr c A_VIS)) in
      let qs := product (map LostMap.zrange shape) in
      let ents := the_entries c in
      let ents0 := the_entries (whole c0) in
      L [of_Zs shape; L (map of_win (c_win c));
         of_Zs (map (model_vis c) qs); of_Zs (map (model_weights c) qs); of_Zs (map (model_flags_with ents c) qs);
         of_Zs (map (fun q => model_vis (whole c0) (abs_pos c0 pr q)) qs);
         of_Zs (map (fun q => model_weights (whole c0) (abs_pos c0 pr q)) qs);
         of_Zs (map (fun q => model_flags_with ents0 (whole c0) (abs_pos c0 pr q)) qs)]
  | _ => sx_err
  end.
