(* C07, second model file: (1) the .npy object of a chunk and the memory layout of the ndarray handed to put_chunk
   (npy_header_and_body, _write_chunk, S3 put_chunk, np.load / read_array), (2) several put_dask_array /
   get_dask_array graphs evaluated by ONE dask compute call: dask merges graphs by task (layer) name, so requests whose
   names clash are evaluated once.  Which attributes of a request its name contains is re-translated from the source
   at every run (Gen/Generated.v: cs_putname_*, cs_getname_*, cs_npy_order_c).  Definitions only. *)
From Coq Require Import ZArith List Bool.
From KV Require Import Base.Sx Gen.Generated Model.Chunks.
Import ListNotations.
Open Scope Z_scope.

(* ------------------------------------------------------------------------------------------------ *)
(* (1) layouts and .npy objects                                                                        *)

(* Fortran-order enumeration of an index space: the FIRST index varies fastest *)
Definition enumerate_f (shape : list Z) : list (list Z) := map (@rev Z) (enumerate (rev shape)).
Definition listing (fortran : bool) (shape : list Z) : list (list Z) :=
  if fortran then enumerate_f shape else enumerate shape.

(* contiguity class of the ndarray handed to put_chunk (0-d / 1-d contiguous arrays have both flags: LayC) *)
Inductive layout := LayC | LayF | LayOther.

Section Npy.
Context {A : Type}.

(* header field fortran_order, shape, and the body as a flat list of elements *)
Inductive npy_obj := NpyObj (fortran : bool) (shape : list Z) (body : list A).

(* chunk = np.asarray(chunk, order='C') brings every array to C order; without it the layout is kept *)
Definition normalise_layout (l : layout) : layout := if cs_npy_order_c then LayC else l.
(* np.lib.format.header_data_from_array_1_0: fortran_order only for F- but not C-contiguous arrays *)
Definition header_fortran (l : layout) : bool := match l with LayF => true | _ => false end.

(* the object written for a chunk with logical elements `elem` (local indices) of the given shape and layout:
   header from the normalised array, body = chunk.reshape(-1), which lists the LOGICAL elements in C order whatever
   the strides are *)
Definition npy_encode (elem : list Z -> A) (shape : list Z) (lay : layout) : npy_obj :=
  NpyObj (header_fortran (normalise_layout lay)) shape (map elem (enumerate shape)).

(* np.load / read_array: element q of the decoded array; a Fortran-ordered body is reshaped to the reversed shape and
   transposed, i.e. the body lists the elements with the first index varying fastest *)
Definition npy_decode (d : A) (o : npy_obj) (q : list Z) : A :=
  match o with NpyObj fortran shape body => nth (index_of q (listing fortran shape)) body d end.

(* an object written by another .npy writer for the same logical chunk *)
Definition npy_foreign (elem : list Z -> A) (shape : list Z) (fortran : bool) : npy_obj :=
  NpyObj fortran shape (map elem (listing fortran shape)).

End Npy.
Arguments npy_obj A : clear implicits.

(* ------------------------------------------------------------------------------------------------ *)
(* (2) several graphs in one compute call                                                              *)

Definition opt_if {T} (b : bool) (x : T) : option T := if b then Some x else None.

Definition pkey := (option nat * option str * option (list Z) * option Z * option (list (list Z)) * option Z)%type.
Definition pkey_eq_dec : forall a b : pkey, {a = b} + {a <> b}.
Proof. repeat decide equality. Defined.

(* (chunks, index, offset) as they are when the task name is built, i.e. AFTER _prune_chunks; index None = () *)
Definition gplan_t := (list (list Z) * option (list (Z * Z)) * list Z)%type.
Definition gkey := (option nat * option str * option Z * option (list (list Z)) * option (option (list (Z * Z)))
                    * option (list Z))%type.
Definition gkey_eq_dec : forall a b : gkey, {a = b} + {a <> b}.
Proof. repeat decide equality. Defined.

Section Multi.
Context {A : Type}.

(* the stores taking part in the computation, addressed by position (the identity of the store object) *)
Definition world := list (store A).
Definition wget (w : world) (i : nat) : store A := nth i w [].
Fixpoint wset (w : world) (i : nat) (s : store A) : world :=
  match i, w with
  | O, [] => [s]
  | O, _ :: t => s :: t
  | S j, [] => [] :: wset [] j s
  | S j, h :: t => h :: wset t j s
  end.

(* store.put_dask_array(array_name, array, offset): q_src is the identity (dask name) of the source array *)
Record preq := { q_store : nat; q_arr : str; q_dt : Z; q_src : Z; q_f : list Z -> A;
                 q_chunks : list (list Z); q_off : list Z }.

Definition put_layer (r : preq) : pkey :=
  (opt_if cs_putname_store (q_store r), opt_if cs_putname_name (q_arr r), opt_if cs_putname_offset (q_off r),
   opt_if cs_putname_source (q_src r), opt_if cs_putname_chunks (q_chunks r), opt_if cs_putname_dtype (q_dt r)).

Definition exec_put (w : world) (r : preq) : world :=
  wset w (q_store r)
       (fst (put_array (wget w (q_store r)) (q_arr r) (q_dt r) (q_f r) (q_chunks r) (q_off r))).

(* dask.compute of several store.put_dask_array(...) graphs: a request whose task name was already seen is not evaluated
   (its outputs are those of the first request of that name) *)
Fixpoint run_puts (seen : list pkey) (w : world) (reqs : list preq) : world :=
  match reqs with
  | [] => w
  | r :: t => if in_dec pkey_eq_dec (put_layer r) seen then run_puts seen w t
              else run_puts (put_layer r :: seen) (exec_put w r) t
  end.
Definition compute_puts (w : world) (reqs : list preq) : world := run_puts [] w reqs.

(* store.get_dask_array(array_name, chunks, dtype, offset, index): g_index = [] is index=() *)
Record greq := { g_store : nat; g_arr : str; g_dt : Z; g_chunks : list (list Z); g_off : list Z;
                 g_index : list (option Z * option Z) }.

Definition gplan (r : greq) : gplan_t :=
  match g_index r with
  | [] => (g_chunks r, None, g_off r)
  | ix => let pr := prune (g_chunks r) (norm_index (chunks_shape (g_chunks r)) ix) in
          (map (fun x => fst (fst x)) pr, Some (map (fun x => snd (fst x)) pr), map snd pr)
  end.

(* evaluation of one getter graph from the values its name is built from *)
Definition get_planned (d : A) (miss : option A) (st : store A) (arr : str) (dt : Z) (p : gplan_t) : res (list A) :=
  match p with
  | (chunks, None, off) => get_array d miss st arr dt chunks off
  | (chunks, Some index, off) =>
      let needed := cart (map (fun x => needed_axis (fst x) (snd x)) (combine chunks index)) in
      match fetch miss st arr dt off needed with
      | Err e => Err e
      | Ok fetched => Ok (map (read_point d fetched) (region_points index))
      end
  end.

(* what the request means on its own: get_dask_array(...).compute() *)
Definition get_one (d : A) (miss : option A) (w : world) (r : greq) : res (list A) :=
  match g_index r with
  | [] => get_array d miss (wget w (g_store r)) (g_arr r) (g_dt r) (g_chunks r) (g_off r)
  | ix => snd (get_array_index d miss (wget w (g_store r)) (g_arr r) (g_dt r) (g_chunks r) ix)
  end.

Definition get_layer (r : greq) : gkey :=
  let '(chunks, index, off) := gplan r in
  (opt_if cs_getname_store (g_store r), opt_if cs_getname_name (g_arr r), opt_if cs_getname_dtype (g_dt r),
   opt_if cs_getname_chunks chunks, opt_if cs_getname_index index, opt_if cs_getname_offset off).

Definition same_layer (k : gkey) (r : greq) : bool := if gkey_eq_dec (get_layer r) k then true else false.

(* dask.compute of several store.get_dask_array(...) graphs: every output is computed by the tasks of the FIRST request with
   the same task name *)
Definition compute_gets (d : A) (miss : option A) (w : world) (reqs : list greq) : list (res (list A)) :=
  map (fun r => match find (same_layer (get_layer r)) reqs with
                | Some r' => get_planned d miss (wget w (g_store r')) (g_arr r') (g_dt r') (gplan r')
                | None => get_planned d miss (wget w (g_store r)) (g_arr r) (g_dt r) (gplan r)
                end) reqs.

(* the read request that mirrors a put request *)
Definition greq_of (r : preq) : greq :=
  {| g_store := q_store r; g_arr := q_arr r; g_dt := q_dt r; g_chunks := q_chunks r; g_off := q_off r; g_index := [] |}.

(* the objects a put request creates: (store, object key) *)
Definition block_key (arr : str) (off : list Z) (b : slices) : str :=
  chunk_key (chunk_name arr (map fst (match off with [] => b | _ => add_offset b off end))).
Definition targets (r : preq) : list (nat * str) :=
  map (fun b => (q_store r, block_key (q_arr r) (q_off r) b)) (blocks (q_chunks r)).

End Multi.
Arguments world A : clear implicits.
Arguments preq A : clear implicits.

Fixpoint pairwise {T} (R : T -> T -> Prop) (l : list T) : Prop :=
  match l with
  | [] => True
  | x :: t => Forall (R x) t /\ pairwise R t
  end.
Definition disjoint {T} (a b : list T) : Prop := forall x, In x a -> ~ In x b.

(* ------------------------------------------------------------------------------------------------ *)
(* wire                                                                                                *)

Definition to_layout (z : Z) : layout := if z =? 0 then LayC else if z =? 1 then LayF else LayOther.
Definition of_npy (o : npy_obj Z) : sx :=
  match o with NpyObj fo shape body => L [of_bool fo; of_Zs shape; of_Zs body] end.

(* (1 shape layout)          -> (object written for the label array of that shape = (fortran shape body),
                                 decoded elements in C order)
   (2 shape fortran)         -> (foreign object for the label array, decoded elements in C order) *)
Definition wire_npy (x : sx) : sx :=
  match x with
  | L [I 1; shape; I lay] =>
      let shape := to_Zs shape in
      let o := npy_encode (ravel shape) shape (to_layout lay) in
      L [of_npy o; of_Zs (map (npy_decode (-1) o) (enumerate shape))]
  | L [I 2; shape; fo] =>
      let shape := to_Zs shape in
      let o := npy_foreign (ravel shape) shape (to_bool fo) in
      L [of_npy o; of_Zs (map (npy_decode (-1) o) (enumerate shape))]
  | _ => sx_err
  end.

(* puts: ((store arr dt src chunks off base) ...): element p of the source array has label base + ravel shape p
   gets: ((store arr dt chunks off index) ...)
   (nstores puts gets miss) -> (keys of every store, result of every get, results of the same gets one by one) *)
Definition to_preq (x : sx) : preq Z :=
  match x with
  | L [I s; arr; I dt; I src; chunks; off; I base] =>
      let chunks := to_Zss chunks in
      {| q_store := Z.to_nat s; q_arr := to_Zs arr; q_dt := dt; q_src := src;
         q_f := (fun p => base + ravel (chunks_shape chunks) p); q_chunks := chunks; q_off := to_Zs off |}
  | _ => {| q_store := O; q_arr := []; q_dt := 0; q_src := 0; q_f := (fun _ => 0); q_chunks := []; q_off := [] |}
  end.
Definition to_greq (x : sx) : greq :=
  match x with
  | L [I s; arr; I dt; chunks; off; index] =>
      {| g_store := Z.to_nat s; g_arr := to_Zs arr; g_dt := dt; g_chunks := to_Zss chunks; g_off := to_Zs off;
         g_index := to_optpairs index |}
  | _ => {| g_store := O; g_arr := []; g_dt := 0; g_chunks := []; g_off := []; g_index := [] |}
  end.

Definition wire_multi (x : sx) : sx :=
  match x with
  | L [I n; puts; gets; miss] =>
      let w := compute_puts (repeat [] (Z.to_nat n)) (map to_preq (to_list puts)) in
      let gs := map to_greq (to_list gets) in
      L [L (map store_keys w);
         L (map of_res_data (compute_gets (-1) (to_miss miss) w gs));
         L (map (fun g => of_res_data (get_one (-1) (to_miss miss) w g)) gs)]
  | _ => sx_err
  end.

Definition wire_71 (x : sx) : sx := wire_npy x.
Definition wire_72 (x : sx) : sx := wire_multi x.
