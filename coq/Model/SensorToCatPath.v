(* C10: the path from the public API down to sensor_to_categorical, for categorical sensors:
   SensorCache.get(name) -> SensorCache._extract (katdal/sensordata.py): time offset, clean-up of the raw samples
   (remove_duplicates_and_invalid_values: stable sort by time, last of equal timestamps, readable statuses), the
   dummy sample of a sensor without usable data (dummy_sensor_getter: ONE sample at a regenerated time carrying the
   initial value or the default of the sensor's type), the categorical / numerical decision, and the call of
   sensor_to_categorical with the sensor's properties; then `cache[name]` = get(select=True) = data[keep].
   Constants / decisions come from Gen/Generated.v (c10_default_time_offset, c10_dummy_time, c10_categ_default,
   sensor_status_width / sensor_valid_statuses of C12's item).  Definitions only. *)
From Coq Require Import ZArith List Bool String.
From KV Require Import Base.Sx Base.Str Gen.Generated Model.SensorToCat Model.SensorToCatSrc.
Import ListNotations.
Open Scope Z_scope.

(* raw sample: (time, value id, status string) *)
Definition rsample := (Z * Z * string)%type.
Definition r_t (s : rsample) : Z := fst (fst s).
Definition r_v (s : rsample) : Z := snd (fst s).
Definition r_st (s : rsample) : string := snd s.

(* np.argsort(x, kind='mergesort'): stable *)
Fixpoint insert_r (a : rsample) (l : list rsample) : list rsample :=
  match l with
  | [] => [a]
  | b :: t => if r_t a <=? r_t b then a :: l else b :: insert_r a t
  end.
Definition sort_r (l : list rsample) : list rsample := fold_right insert_r [] l.
(* last_of_run = list(np.diff(x) != 0) + [True] *)
Fixpoint keep_last_r (l : list rsample) : list rsample :=
  match l with
  | [] => []
  | a :: t => match t with
              | [] => [a]
              | b :: _ => if r_t a =? r_t b then keep_last_r t else a :: keep_last_r t
              end
  end.
(* status = z[unique_ind].astype('|S7') in (nominal, warn, error): width and literals regenerated (C12's item) *)
Definition status_readable (s : string) : bool :=
  mem_string (substring 0 sensor_status_width s) sensor_valid_statuses.
Definition clean_r (has_status : bool) (l : list rsample) : list rsample :=
  let u := keep_last_r (sort_r l) in
  if has_status then filter (fun s => status_readable (r_st s)) u else u.
Definition shift_r (off : Z) (l : list rsample) : list rsample :=
  map (fun s => (r_t s + off, r_v s, r_st s)) l.

(* _extract up to the categorical decision: the (time, value) samples handed to sensor_to_categorical.
   off = props.get('time_offset', default); a sensor without usable samples gets the dummy sample *)
Definition usable_samples (raw : list rsample) (has_status : bool) (off : option Z) (init : option Z) (dflt : Z)
  : list (Z * Z) :=
  let o := match off with Some o => o | None => c10_default_time_offset end in
  let c := match raw with [] => [] | _ => clean_r has_status (shift_r o raw) end in    (* `if sensor_data:` *)
  match c with
  | [] => [(fst c10_dummy_time / snd c10_dummy_time, match init with Some i => i | None => dflt end)]
  | _ => map (fun s => (r_t s, r_v s)) c
  end.

(* categ = props.get('categorical', <c10_categ_default>(dtype is floating)) *)
Definition decide_categorical_src (p : option bool) (is_float : bool) : bool :=
  match p with Some b => b | None => c10_categ_default is_float end.

(* SPEC of the decision (what SensorCache.get documents): an explicit property wins, otherwise non-float = categorical *)
Definition spec_categorical (p : option bool) (is_float : bool) : bool :=
  match p with Some b => b | None => negb is_float end.

Definition extract_cat_src (raw : list rsample) (has_status : bool) (off : option Z) (dflt : Z) (mids : list Z) (P : Z)
    (tr : option (list (Z * Z))) (init : option Z) (greedy : list Z) (ar : option bool) : res cat :=
  let s := usable_samples raw has_status off init dflt in
  sensor_to_categorical_src (map fst s) (map snd s) mids P tr init greedy ar.

Definition extract_per_dump_src raw has_status off dflt mids P tr init greedy ar : res (list Z) :=
  match extract_cat_src raw has_status off dflt mids P tr init greedy ar with
  | Ok c => cat_all_src c
  | Err => Err
  end.

(* cache[name] = get(name, select=True) = data[keep]: keep = slice(None) (None) or a boolean mask, one per dump:
   CategoricalData.__getitem__ turns the mask into np.nonzero(mask)[0] and looks every selected dump up *)
Fixpoint nonzero (k : nat) (mask : list bool) : list nat :=
  match mask with
  | [] => []
  | b :: t => if b then k :: nonzero (S k) t else nonzero (S k) t
  end.
Definition cat_select_src (c : cat) (keep : option (list bool)) : res (list Z) :=
  match keep with
  | None => cat_all_src c
  | Some mask =>
      if Z.of_nat (List.length mask) =? last (cevents c) 0
      then res_all (map (fun k => cat_lookup_src c (Z.of_nat k)) (nonzero 0 mask))
      else Err        (* a mask of another List.length is treated as a sequence of indices by katdal: not modelled *)
  end.
Definition select_mask {A} (mask : list bool) (l : list A) : list A :=
  map snd (filter (fun p => fst p) (combine mask l)).

(* ---------- wire ---------- *)
Definition to_rsample (x : sx) : rsample :=
  match x with
  | L [I t; I v; st] => (t, v, to_string st)
  | _ => (0, 0, EmptyString)
  end.
Definition to_optmask (x : sx) : option (list bool) :=
  match x with L [m] => Some (to_bools m) | _ => None end.

(* (raw-samples has_status off? dflt mids P tr init greedy ar? keep? categorical? is_float) ->
   ((categorical-decision-as-coded spec-of-the-decision)  usable-samples  (ok events indices unique per_dump)  (ok selected)  (ok rule)  (ok rule as coded)) *)
Definition wire_103 (x : sx) : sx :=
  match x with
  | L [raw; hs; off; I dflt; mids; I P; tr; init; greedy; ar; keep; categ; isf] =>
      let raw := map to_rsample (to_list raw) in let hs := to_bool hs in let off := to_optZ off in
      let mids := to_Zs mids in let tr := to_tr tr in let init := to_optZ init in let greedy := to_Zs greedy in
      let ar := to_optbool ar in let keep := to_optmask keep in
      let s := usable_samples raw hs off init dflt in
      let ends := dump_ends mids P in
      let m := match extract_cat_src raw hs off dflt mids P tr init greedy ar with
               | Ok c => L [L [I 1; of_Zs (cevents c); of_nats (indices c); of_Zs (unique_values c);
                               of_res_list (cat_all_src c)]; of_res_list (cat_select_src c keep)]
               | Err => L [L [I 0]; L [I 0]]
               end in
      let sp := fun i => match spec_per_dump (map fst s) (map snd s) ends P tr i greedy with
                         | Some l => L [I 1; of_Zs l] | None => L [I 0] end in
      L [L [of_bool (decide_categorical_src (to_optbool categ) (to_bool isf));
            of_bool (spec_categorical (to_optbool categ) (to_bool isf))];
         L (map (fun p => L [I (fst p); I (snd p)]) s);
         m; sp init; sp (init_as_coded (map fst s) ends P init)]
  | _ => sx_err
  end.
