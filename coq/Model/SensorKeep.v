(* C12: the time selection `keep` of a sensor cache in ALL the forms the constructor documents
   ("keep : int or slice or sequence of int or sequence of bool", default slice(None)) and its application
   `sensor_data[self.keep]` to an extracted numeric sensor (a 1-D numpy array) in SensorCache.get(select=True) /
   cache[name].  Definitions only.

   numpy semantics modelled: a[mask] (length must agree, else IndexError - except that an EMPTY boolean mask selects
   nothing from an array of any length, a numpy special case), a[slice] (PySlice_AdjustIndices + range),
   a[int] (a scalar; negative indices wrap once; IndexError outside [-n, n)), a[[i, j, ...]] (fancy indexing with the
   same wrap / IndexError rule, result in the order of the index list, repeats allowed). *)
From Coq Require Import ZArith List Bool.
From KV Require Import Model.Interp.
Import ListNotations.
Local Open Scope Z_scope.

Inductive keep :=
| KpMask (m : list bool)
| KpSlice (start stop step : option Z)
| KpInt (i : Z)
| KpIdx (l : list Z).

(* what SensorCache.__init__ installs when no keep is given (Generated.sensor_keep_default = "slice(None)") *)
Definition keep_default : keep := KpSlice None None None.

Inductive kres (A : Type) :=
| KrVals (l : list A)      (* a 1-D array *)
| KrScalar (a : A)         (* a numpy scalar *)
| KrIndexErr               (* IndexError *)
| KrValueErr.              (* ValueError: slice step cannot be zero *)
Arguments KrVals {A}. Arguments KrScalar {A}. Arguments KrIndexErr {A}. Arguments KrValueErr {A}.

(* PySlice_AdjustIndices: (start, stop, step) clipped to a sequence of length n *)
Definition k_adjust (n : Z) (start stop step : option Z) : option (Z * Z * Z) :=
  let st := match step with None => 1 | Some s => s end in
  if st =? 0 then None else
  let lower := if st <? 0 then -1 else 0 in
  let upper := if st <? 0 then n - 1 else n in
  let clamp v := if v <? 0 then Z.max (v + n) lower else Z.min v upper in
  let s0 := match start with None => if st <? 0 then upper else lower | Some v => clamp v end in
  let s1 := match stop with None => if st <? 0 then lower else upper | Some v => clamp v end in
  Some (s0, s1, st).

(* range(s0, s1, st): walk from s0 in steps of st while before s1; fuel = length of the sequence + 1 *)
Fixpoint k_walk (fuel : nat) (cur s1 st : Z) : list Z :=
  match fuel with
  | O => []
  | S f => if (if 0 <? st then cur <? s1 else s1 <? cur) then cur :: k_walk f (cur + st) s1 st else []
  end.

Definition k_positions (n : nat) (start stop step : option Z) : option (list Z) :=
  match k_adjust (Z.of_nat n) start stop step with
  | Some (s0, s1, st) => Some (k_walk (S n) s0 s1 st)
  | None => None
  end.

(* one integer index: wraps once *)
Definition k_wrap (n : Z) (i : Z) : option nat :=
  if (0 <=? i) && (i <? n) then Some (Z.to_nat i)
  else if (- n <=? i) && (i <? 0) then Some (Z.to_nat (i + n))
  else None.

Fixpoint k_all {A} (l : list (option A)) : option (list A) :=
  match l with
  | [] => Some []
  | None :: _ => None
  | Some a :: t => match k_all t with Some r => Some (a :: r) | None => None end
  end.

Definition apply_keep {A} (k : keep) (l : list A) : kres A :=
  let n := List.length l in
  match k with
  | KpMask m => if Nat.eqb (List.length m) n || Nat.eqb (List.length m) 0
                then KrVals (select_mask m l) else KrIndexErr
  | KpSlice a b s =>
      match k_positions n a b s with
      | None => KrValueErr
      | Some ps => match k_all (map (fun p => nth_error l (Z.to_nat p)) ps) with
                   | Some r => KrVals r
                   | None => KrIndexErr        (* unreachable: see keep_slice_total *)
                   end
      end
  | KpInt i => match k_wrap (Z.of_nat n) i with
               | Some p => match nth_error l p with Some a => KrScalar a | None => KrIndexErr end
               | None => KrIndexErr
               end
  | KpIdx ix => match k_all (map (fun i => match k_wrap (Z.of_nat n) i with
                                           | Some p => nth_error l p
                                           | None => None
                                           end) ix) with
                | Some r => KrVals r
                | None => KrIndexErr
                end
  end.

(* the positions (0-based, as Z) at which a mask is true: np.nonzero(mask)[0] *)
Fixpoint true_pos (m : list bool) (pos : Z) : list Z :=
  match m with
  | [] => []
  | b :: t => if b then pos :: true_pos t (pos + 1) else true_pos t (pos + 1)
  end.

(* SPEC of a slice, independent of the walk: position p is selected iff it lies in [0, n), on the lattice
   s0 + k*st and strictly before the stop in the direction of travel *)
Definition slice_selects (n : Z) (s0 s1 st p : Z) : Prop :=
  0 <= p < n /\ (st | p - s0) /\ (if 0 <? st then s0 <= p < s1 else s1 < p <= s0).
