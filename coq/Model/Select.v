(* C02 (reused by C03, C16): executable model of DataSet.select (katdal/dataset.py:597-919), the declarative
   spec `spec_select` of the property statement, and the wire function.

   Single spectral window / single subarray (spw = subarray = 0 throughout; DESIGN section 6, C02, NV).
   Names (scan states, compscan labels, target names / aliases, tags, antennas) are small integers assigned by
   the harness; polarisations are 0 = 'h', 1 = 'v', anything else = some other letter.  Timestamps, channel
   frequencies and range end points are integers in a common unit chosen by the harness (a quarter of a dump /
   of a channel), so that the comparisons katdal performs in float64 are exact. *)
From Coq Require Import ZArith List Bool String Ascii.
From KV Require Import Base.Sx Base.Str Base.SelSlice Gen.Generated.
Import ListNotations.
Open Scope Z_scope.

(* ------------------------------------------------------------------------------------------------ *)
(* Observation structure (static)                                                                    *)

Record dump := { d_ts : Z; d_scan : Z; d_state : Z; d_cscan : Z; d_label : Z; d_target : Z }.
Record target := { t_names : list Z; t_tags : list Z }.
Definition input := (Z * Z)%type.                       (* (antenna id, polarisation id) *)
Definition cprod := (input * input)%type.

Record obs := {
  o_dumps : list dump;          (* one entry per dump: timestamp + scan / compscan / target sensors *)
  o_half : Z;                   (* half a dump period, same unit as d_ts *)
  o_targets : list target;      (* the catalogue, in order: names (incl. aliases) and tags of each target *)
  o_freqs : list Z;             (* channel centre frequencies of the spectral window *)
  o_halfw : Z;                  (* half a channel width *)
  o_cps : list cprod            (* correlation products of the subarray *)
}.

Inductive dim := DT | DF | DB.
Definition dim_eqb (a b : dim) : bool :=
  match a, b with DT, DT | DF, DF | DB, DB => true | _, _ => false end.
Definition dimlen (o : obs) (d : dim) : nat :=
  match d with DT => List.length (o_dumps o) | DF => List.length (o_freqs o) | DB => List.length (o_cps o) end.

(* ------------------------------------------------------------------------------------------------ *)
(* Keyword values                                                                                    *)

Inductive sitem := SIdx (z : Z) | SName (id : Z) | SNot (id : Z).    (* 3 | 'track' | '~track' *)
Inductive titem := TIdx (z : Z) | TName (id : Z).                    (* index / object | name, alias *)
Inductive pitem := PEmpty | POne (p : Z) | PTwo (p q : Z).           (* '' | 'h' | 'hv' (lower-cased) *)

Inductive value :=
| VIdx (i : idx)                         (* dumps / channels / corrprods: mask, int, slice, ints *)
| VRange (lo hi : Z)                     (* timerange / freqrange *)
| VScans (l : list sitem)                (* scans / compscans, after _selection_to_list *)
| VTargets (l : list titem)
| VIds (l : list Z)                      (* target_tags *)
| VAuto | VCross | VPairs (l : list cprod)      (* corrprods = 'auto' | 'cross' | sequence of string pairs *)
| VAnts (l : list (bool * Z))            (* (has tilde, antenna id) *)
| VInputs (l : list input)
| VPols (l : list pitem)
| VStr (s : string)                      (* reset *)
| VAtom (z : Z).                         (* spw, subarray, strict, weights, flags, unknown keywords: opaque *)

Definition kwargs := list (string * value).

(* ------------------------------------------------------------------------------------------------ *)
(* One criterion -> one mask (the body of each branch of the loop at dataset.py:759-895)            *)

Inductive cres := CErr | CNone | CMask (d : dim) (m : list bool).

Definition lift (d : dim) (r : option (list bool)) : cres :=
  match r with Some m => CMask d m | None => CErr end.

Definition memZ (x : Z) (l : list Z) : bool := existsb (Z.eqb x) l.
Definition input_eqb (a b : input) : bool := (fst a =? fst b) && (snd a =? snd b).
Definition mem_input (x : input) (l : list input) : bool := existsb (input_eqb x) l.
Definition cprod_eqb (a b : cprod) : bool := input_eqb (fst a) (fst b) && input_eqb (snd a) (snd b).

(* timerange: start = v[0] + dump/2, end = v[1] - dump/2; keep &= ts >= start; keep &= ts <= end *)
Definition timerange_mask (o : obs) (lo hi : Z) : list bool :=
  map (fun d => (lo + o_half o <=? d_ts d) && (d_ts d <=? hi - o_half o)) (o_dumps o).
Definition freqrange_mask (o : obs) (lo hi : Z) : list bool :=
  map (fun f => (lo + o_halfw o <=? f) && (f <=? hi - o_halfw o)) (o_freqs o).

(* scans / compscans: OR over the items of index match, name match or negated name match *)
Definition sitem_keep (index name : Z) (it : sitem) : bool :=
  match it with
  | SIdx z => index =? z
  | SName id => name =? id
  | SNot id => negb (name =? id)
  end.
Definition scans_mask (o : obs) (l : list sitem) : list bool :=
  map (fun d => existsb (sitem_keep (d_scan d) (d_state d)) l) (o_dumps o).
Definition compscans_mask (o : obs) (l : list sitem) : list bool :=
  map (fun d => existsb (sitem_keep (d_cscan d) (d_label d)) l) (o_dumps o).

(* catalogue positions as integers paired with the targets *)
Definition enum_targets (o : obs) : list (Z * target) := combine (zpos (List.length (o_targets o))) (o_targets o).

(* targets: integer -> itself; name -> the catalogue indices of all targets with that name / alias
   (none: warning, skipped) *)
Definition target_indices (o : obs) (l : list titem) : list Z :=
  flat_map (fun it => match it with
                      | TIdx z => [z]
                      | TName id => map fst (filter (fun p => memZ id (t_names (snd p))) (enum_targets o))
                      end) l.
Definition targets_mask (o : obs) (l : list titem) : list bool :=
  let tis := target_indices o l in
  map (fun d => memZ (d_target d) tis) (o_dumps o).

(* target_tags: unknown tags dropped with a warning; keep dumps whose target has one of the tags *)
Definition tags_mask (o : obs) (sel : list Z) : list bool :=
  let known := flat_map t_tags (o_targets o) in
  let tags := filter (fun t => memZ t known) sel in
  map (fun d => existsb (fun p => existsb (fun t => memZ t tags) (t_tags (snd p)) && (d_target d =? fst p))
                        (enum_targets o)) (o_dumps o).

Definition ant_of (i : input) : Z := fst i.
Definition pol_of (i : input) : Z := snd i.

(* ants: all names carry a tilde (or there are none) -> deselection *)
Definition is_deselection (l : list (bool * Z)) : bool := forallb fst l.
Definition ants_mask (o : obs) (l : list (bool * Z)) : list bool :=
  if is_deselection l then
    let names := map snd l in
    map (fun cp => negb (memZ (ant_of (fst cp)) names) && negb (memZ (ant_of (snd cp)) names)) (o_cps o)
  else
    (* '~name' is kept verbatim and matches no antenna *)
    let names := map snd (filter (fun a => negb (fst a)) l) in
    map (fun cp => memZ (ant_of (fst cp)) names && memZ (ant_of (snd cp)) names) (o_cps o).

Definition inputs_mask (o : obs) (l : list input) : list bool :=
  map (fun cp => mem_input (fst cp) l && mem_input (snd cp) l) (o_cps o).

(* pol: empty strings dropped; 'h' -> 'hh', 'v' -> 'vv'; another single letter x: the test
   `inpA[-1] == x and inpB[-1] == polAB[1]` raises IndexError as soon as some product's first input ends in x
   (short-circuit `and`), and matches nothing otherwise *)
Definition is_hv (p : Z) : bool := (p =? 0) || (p =? 1).
Definition pol_pair (it : pitem) : option (Z * Z) :=
  match it with
  | PEmpty => None
  | POne p => if is_hv p then Some (p, p) else None
  | PTwo p q => Some (p, q)
  end.
Definition pitem_nonempty (it : pitem) : bool := match it with PEmpty => false | _ => true end.
Definition pitem_ok (cps : list cprod) (it : pitem) : bool :=
  match it with
  | POne p => is_hv p || negb (existsb (fun cp => pol_of (fst cp) =? p) cps)
  | _ => true
  end.
Definition pitem_keep (cp : cprod) (it : pitem) : bool :=
  match pol_pair it with
  | Some (p, q) => (pol_of (fst cp) =? p) && (pol_of (snd cp) =? q)
  | None => false
  end.
Definition pol_mask (o : obs) (l : list pitem) : option (list bool) :=
  let pols := filter pitem_nonempty l in
  match pols with
  | [] => Some (ones (List.length (o_cps o)))           (* `if len(pols) > 0:` not taken: no change *)
  | _ => if forallb (pitem_ok (o_cps o)) pols
         then Some (map (fun cp => existsb (pitem_keep cp) pols) (o_cps o))
         else None
  end.

Definition corrprods_mask (o : obs) (v : value) : option (list bool) :=
  match v with
  | VAuto => Some (map (fun cp => ant_of (fst cp) =? ant_of (snd cp)) (o_cps o))
  | VCross => Some (map (fun cp => negb (ant_of (fst cp) =? ant_of (snd cp))) (o_cps o))
  | VPairs l => Some (map (fun cp => existsb (cprod_eqb cp) l) (o_cps o))
  | VIdx ix => index_mask (List.length (o_cps o)) ix
  | _ => None
  end.

(* the if / elif chain of the loop, in source order; a value of the wrong shape for its key raises *)
Definition crit (o : obs) (k : string) (v : value) : cres :=
  if String.eqb k "dumps" then
    match v with VIdx ix => lift DT (index_mask (List.length (o_dumps o)) ix) | _ => CErr end
  else if String.eqb k "timerange" then
    match v with VRange lo hi => CMask DT (timerange_mask o lo hi) | _ => CErr end
  else if String.eqb k "scans" then
    match v with VScans l => CMask DT (scans_mask o l) | _ => CErr end
  else if String.eqb k "compscans" then
    match v with VScans l => CMask DT (compscans_mask o l) | _ => CErr end
  else if String.eqb k "targets" then
    match v with VTargets l => CMask DT (targets_mask o l) | _ => CErr end
  else if String.eqb k "target_tags" then
    match v with VIds l => CMask DT (tags_mask o l) | _ => CErr end
  else if String.eqb k "channels" then
    match v with VIdx ix => lift DF (index_mask (List.length (o_freqs o)) ix) | _ => CErr end
  else if String.eqb k "freqrange" then
    match v with VRange lo hi => CMask DF (freqrange_mask o lo hi) | _ => CErr end
  else if String.eqb k "corrprods" then lift DB (corrprods_mask o v)
  else if String.eqb k "ants" then
    match v with VAnts l => CMask DB (ants_mask o l) | _ => CErr end
  else if String.eqb k "inputs" then
    match v with VInputs l => CMask DB (inputs_mask o l) | _ => CErr end
  else if String.eqb k "pol" then
    match v with VPols l => lift DB (pol_mask o l) | _ => CErr end
  else CNone.

(* ------------------------------------------------------------------------------------------------ *)
(* State and the select() call                                                                       *)

Record st := {
  tk : list bool; fk : list bool; bk : list bool;     (* _time_keep, _freq_keep, _corrprod_keep *)
  sel : kwargs;                                        (* _selection: insertion-ordered dict *)
  wk : value; flk : value                              (* _weights_keep, _flags_keep *)
}.

Definition mget (d : dim) (s : st) : list bool := match d with DT => tk s | DF => fk s | DB => bk s end.
Definition mset (d : dim) (m : list bool) (s : st) : st :=
  match d with
  | DT => {| tk := m; fk := fk s; bk := bk s; sel := sel s; wk := wk s; flk := flk s |}
  | DF => {| tk := tk s; fk := m; bk := bk s; sel := sel s; wk := wk s; flk := flk s |}
  | DB => {| tk := tk s; fk := fk s; bk := m; sel := sel s; wk := wk s; flk := flk s |}
  end.
Definition set_sel (l : kwargs) (s : st) : st :=
  {| tk := tk s; fk := fk s; bk := bk s; sel := l; wk := wk s; flk := flk s |}.
Definition set_wk (v : value) (s : st) : st :=
  {| tk := tk s; fk := fk s; bk := bk s; sel := sel s; wk := v; flk := flk s |}.
Definition set_flk (v : value) (s : st) : st :=
  {| tk := tk s; fk := fk s; bk := bk s; sel := sel s; wk := wk s; flk := v |}.

(* dict operations on an association list with distinct keys *)
Definition lookup (k : string) (l : kwargs) : option value :=
  match find (fun p => String.eqb k (fst p)) l with Some p => Some (snd p) | None => None end.
Definition has_key (k : string) (l : kwargs) : bool := existsb (fun p => String.eqb k (fst p)) l.
Definition remove_key (k : string) (l : kwargs) : kwargs := filter (fun p => negb (String.eqb k (fst p))) l.
Fixpoint set_key (k : string) (v : value) (l : kwargs) : kwargs :=          (* d[k] = v *)
  match l with
  | [] => [(k, v)]
  | p :: t => if String.eqb k (fst p) then (fst p, v) :: t else p :: set_key k v t
  end.
Definition update (d kw : kwargs) : kwargs := fold_left (fun acc p => set_key (fst p) (snd p) acc) kw d.
Definition keys (l : kwargs) : list string := map fst l.

(* state after the constructor's select(spw=0, subarray=0) *)
Definition init (o : obs) : st :=
  {| tk := ones (dimlen o DT); fk := ones (dimlen o DF); bk := ones (dimlen o DB);
     sel := [("spw"%string, VAtom 0); ("subarray"%string, VAtom 0)]; wk := VAtom 0; flk := VAtom 0 |}.

Inductive err := ETypeError | EFail.
Inductive res (A : Type) := Ok (a : A) | Err (e : err).
Arguments Ok {A} a.
Arguments Err {A} e.

Definition truthy (v : value) : bool := match v with VAtom 0 => false | _ => true end.

(* `'T' in reset` for the one-letter strings of the tables *)
Fixpoint has_char (c : ascii) (s : string) : bool :=
  match s with EmptyString => false | String a t => Ascii.eqb a c || has_char c t end.
Definition letter_in (letter s : string) : bool :=
  match letter with String c EmptyString => has_char c s | _ => false end.

(* reset = 'T' if set(kwargs.keys()).intersection(time_selectors) else '' ; reset += 'F' if ... *)
Definition hits (kw : kwargs) (grp : list string) : bool := existsb (fun p => mem_string (fst p) grp) kw.
Definition auto_reset (kw : kwargs) : string :=
  fold_left (fun acc row => if hits kw (snd row) then append acc (fst row) else acc) sel_auto_table EmptyString.

Definition attr_dim (attr : string) : option dim :=
  if String.eqb attr "_time_keep" then Some DT
  else if String.eqb attr "_freq_keep" then Some DF
  else if String.eqb attr "_corrprod_keep" then Some DB
  else None.

(* if 'T' in reset: mask = all True (single spw / subarray); for key in time_selectors: _selection.pop(key) ... *)
Definition clear_row (o : obs) (reset : string) (s : st) (row : string * (string * list string)) : st :=
  if letter_in (fst row) reset then
    let s' := match attr_dim (fst (snd row)) with Some d => mset d (ones (dimlen o d)) s | None => s end in
    set_sel (fold_left (fun l k => remove_key k l) (snd (snd row)) (sel s')) s'
  else s.
Definition clear (o : obs) (reset : string) (s : st) : st := fold_left (clear_row o reset) sel_clear_table s.

(* one iteration of `for k, v in self._selection.items()` *)
Definition apply1 (o : obs) (s : st) (kv : string * value) : res st :=
  match crit o (fst kv) (snd kv) with
  | CErr => Err EFail
  | CMask d m => Ok (mset d (mand (mget d s) m) s)
  | CNone =>
      if String.eqb (fst kv) "weights" then Ok (set_wk (snd kv) s)
      else if String.eqb (fst kv) "flags" then Ok (set_flk (snd kv) s)
      else Ok s
  end.
Definition loop (o : obs) (l : kwargs) (s : st) : res st :=
  fold_left (fun r kv => match r with Ok s => apply1 o s kv | Err e => Err e end) l (Ok s).

Definition select (o : obs) (s : st) (kw : kwargs) : res st :=
  let strict := match lookup "strict" kw with Some v => truthy v | None => sel_strict_default end in
  if strict && existsb (fun p => negb (mem_string (fst p) sel_valid_kwargs)) kw then Err ETypeError else
  (* reset = 'TFB' if not kwargs else kwargs.pop('reset', 'auto') *)
  let reset0 := match kw with
                | [] => VStr sel_noarg_reset
                | _ => match lookup "reset" kw with Some v => v | None => VStr sel_default_reset end
                end in
  let kw1 := remove_key "reset" kw in
  (* kwargs['spw'] = spw = kwargs.get('spw', self.spw): only spw 0 exists, anything else is not modelled *)
  let spw := match lookup "spw" kw1 with Some v => v | None => VAtom 0 end in
  let kw2 := set_key "spw" spw kw1 in
  let sub := match lookup "subarray" kw2 with Some v => v | None => VAtom 0 end in
  let kw3 := set_key "subarray" sub kw2 in
  match spw, sub, reset0 with
  | VAtom 0, VAtom 0, VStr r0 =>
      let reset := if String.eqb r0 sel_default_reset then auto_reset kw3 else r0 in
      let s1 := clear o reset s in
      let s2 := set_sel (update (sel s1) kw3) s1 in
      loop o (sel s2) s2
  | _, _, _ => Err EFail
  end.

(* ------------------------------------------------------------------------------------------------ *)
(* SPEC (property statement / DESIGN Appendix B)                                                     *)

(* the documented groups (docstring of select) *)
Definition doc_group (d : dim) : list string :=
  match d with
  | DT => ["dumps"; "timerange"; "scans"; "compscans"; "targets"; "target_tags"]
  | DF => ["channels"; "freqrange"]
  | DB => ["corrprods"; "ants"; "inputs"; "pol"]
  end%string.
Definition doc_other : list string := ["spw"; "subarray"; "weights"; "flags"; "reset"; "strict"]%string.
Definition doc_valid : list string := doc_group DT ++ doc_group DF ++ doc_group DB ++ doc_other.
Definition doc_letter (d : dim) : ascii := match d with DT => "T" | DF => "F" | DB => "B" end%char.

Record masks := { m_t : list bool; m_f : list bool; m_b : list bool }.
Definition mk (d : dim) (m : masks) : list bool := match d with DT => m_t m | DF => m_f m | DB => m_b m end.
Definition masks_of (s : st) : masks := {| m_t := tk s; m_f := fk s; m_b := bk s |}.

(* which dimensions are cleared: everything for a call without arguments; the dimensions mentioned by the
   keywords when reset is absent or 'auto'; the letters of an explicit reset otherwise *)
Definition spec_reset (kw : kwargs) (d : dim) : bool :=
  match kw with
  | [] => true
  | _ => match lookup "reset" kw with
         | Some (VStr r) => if String.eqb r "auto" then hits kw (doc_group d) else has_char (doc_letter d) r
         | _ => hits kw (doc_group d)
         end
  end.

(* masks of the criteria of dimension d given in this call *)
Definition spec_crit_masks (o : obs) (d : dim) (kw : kwargs) : list (list bool) :=
  flat_map (fun p => if mem_string (fst p) (doc_group d)
                     then match crit o (fst p) (snd p) with CMask _ m => [m] | _ => [] end
                     else []) kw.

Definition spec_dim (o : obs) (d : dim) (old : list bool) (kw : kwargs) : list bool :=
  fold_left mand (spec_crit_masks o d kw) (if spec_reset kw d then ones (dimlen o d) else old).

Definition is_cerr (c : cres) : bool := match c with CErr => true | _ => false end.
(* every criterion of the dictionary can be evaluated (no exception) *)
Definition all_ok (o : obs) (l : kwargs) : bool :=
  forallb (fun kv => negb (is_cerr (crit o (fst kv) (snd kv)))) l.
Definition atom0 (o : option value) : bool := match o with None | Some (VAtom 0) => true | _ => false end.
Definition reset_wellformed (kw : kwargs) : bool :=
  match lookup "reset" kw with None | Some (VStr _) => true | _ => false end.

Definition spec_select (o : obs) (m : masks) (kw : kwargs) : res masks :=
  let strict := match lookup "strict" kw with Some v => truthy v | None => true end in
  if strict && existsb (fun p => negb (mem_string (fst p) doc_valid)) kw then Err ETypeError
  else if negb (atom0 (lookup "spw" kw) && atom0 (lookup "subarray" kw) && reset_wellformed kw) then Err EFail
  else if negb (all_ok o kw) then Err EFail
  else Ok {| m_t := spec_dim o DT (m_t m) kw; m_f := spec_dim o DF (m_f m) kw; m_b := spec_dim o DB (m_b m) kw |}.

(* ------------------------------------------------------------------------------------------------ *)
(* Wire                                                                                              *)

Definition to_idx (x : sx) : idx :=
  match x with
  | L [I 0; m] => IxMask (to_bools m)
  | L [I 1; I z] => IxInt z
  | L [I 2; a; b; c] => IxSlice (to_optZ a) (to_optZ b) (to_optZ c)
  | L [I 3; l] => IxList (to_Zs l)
  | _ => IxList []
  end.
Definition to_input2 (a p : sx) : input := (to_Z a, to_Z p).
Definition to_cprod (x : sx) : cprod :=
  match x with L [a; pa; b; pb] => (to_input2 a pa, to_input2 b pb) | _ => ((-1, -1), (-1, -1)) end.
Definition to_value (x : sx) : value :=
  match x with
  | L [I 0; ix] => VIdx (to_idx ix)
  | L [I 1; I lo; I hi] => VRange lo hi
  | L [I 2; l] => VScans (map (fun it => match it with
                                         | L [I 0; I z] => SIdx z | L [I 1; I z] => SName z
                                         | L [I 2; I z] => SNot z | _ => SIdx (-1) end) (to_list l))
  | L [I 3; l] => VTargets (map (fun it => match it with
                                           | L [I 0; I z] => TIdx z | L [I 1; I z] => TName z
                                           | _ => TIdx (-1) end) (to_list l))
  | L [I 4; l] => VIds (to_Zs l)
  | L [I 5] => VAuto
  | L [I 6] => VCross
  | L [I 7; l] => VPairs (map to_cprod (to_list l))
  | L [I 8; l] => VAnts (map (fun it => match it with L [n; I z] => (to_bool n, z) | _ => (false, -1) end) (to_list l))
  | L [I 9; l] => VPols (map (fun it => match it with
                                        | L [I p] => POne p | L [I p; I q] => PTwo p q | _ => PEmpty end) (to_list l))
  | L [I 10; s] => VStr (to_string s)
  | L [I 11; I z] => VAtom z
  | L [I 12; l] => VInputs (map (fun it => match it with L [a; p] => to_input2 a p | _ => (-1, -1) end) (to_list l))
  | _ => VAtom (-1)
  end.
Definition to_kwargs (x : sx) : kwargs :=
  map (fun p => match p with L [k; v] => (to_string k, to_value v) | _ => (EmptyString, VAtom (-1)) end) (to_list x).
Definition to_dump (x : sx) : dump :=
  match to_Zs x with
  | [a; b; c; d; e; f] => {| d_ts := a; d_scan := b; d_state := c; d_cscan := d; d_label := e; d_target := f |}
  | _ => {| d_ts := 0; d_scan := 0; d_state := 0; d_cscan := 0; d_label := 0; d_target := 0 |}
  end.
Definition to_target (x : sx) : target :=
  match x with L [n; t] => {| t_names := to_Zs n; t_tags := to_Zs t |} | _ => {| t_names := []; t_tags := [] |} end.
Definition to_obs (x : sx) : obs :=
  match x with
  | L [ds; I h; ts; fs; I hw; cps] =>
      {| o_dumps := map to_dump (to_list ds); o_half := h; o_targets := map to_target (to_list ts);
         o_freqs := to_Zs fs; o_halfw := hw; o_cps := map to_cprod (to_list cps) |}
  | _ => {| o_dumps := []; o_half := 0; o_targets := []; o_freqs := []; o_halfw := 0; o_cps := [] |}
  end.

Definition of_atom (v : value) : sx := match v with VAtom z => I z | _ => I (-1) end.
Definition of_model (r : res st) : list sx :=
  match r with
  | Ok s => [I 0; of_bools (tk s); of_bools (fk s); of_bools (bk s);
             L (map of_string (keys (sel s))); of_atom (wk s); of_atom (flk s)]
  | Err ETypeError => [I 1]
  | Err EFail => [I 2]
  end.
Definition of_spec (r : res masks) : list sx :=
  match r with
  | Ok m => [I 0; of_bools (m_t m); of_bools (m_f m); of_bools (m_b m)]
  | Err ETypeError => [I 1]
  | Err EFail => [I 2]
  end.

(* a history of calls from the initial state; the model and the spec each follow their own chain.
   TypeError (strict) leaves the state untouched and the history goes on; any other failure ends it. *)
Fixpoint run_history (o : obs) (s : st) (m : masks) (calls : list kwargs) : list sx :=
  match calls with
  | [] => []
  | c :: rest =>
      let r := select o s c in
      let sp := spec_select o m c in
      L [L (of_model r); L (of_spec sp)] ::
      match r, sp with
      | Ok s', Ok m' => run_history o s' m' rest
      | Err ETypeError, Err ETypeError => run_history o s m rest
      | _, _ => []
      end
  end.

(* (obs (call ...)) -> ((model spec) ...) *)
Definition wire_2 (x : sx) : sx :=
  match x with
  | L [ob; calls] =>
      let o := to_obs ob in
      L (run_history o (init o) (masks_of (init o)) (map to_kwargs (to_list calls)))
  | _ => sx_err
  end.
