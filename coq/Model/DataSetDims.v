(* C01 (extension round): the DIMENSIONALITY of an answer x[ix2] -- which axes a scalar index drops, and the keepdims
   option of the v2 / v3 readers.

   Model/DataSet.v answers in the canonical form (every axis kept, scalar-indexed axes with length 1: [oindex_keep])
   because the property fixes coordinates.  What the classes really return:
     LazyIndexer (v2, v3), DaskLazyIndexer (v4), numpy arrays (v3 / v4 timestamps): a scalar index drops its axis
         = [oindex] of Base/NdArray.v (the outer-indexing spec that C05 / C04 prove of those classes)     [index_np]
     H5DataV2 / V3 opened with keepdims=True append the transform _force_full_dim to vis / flags / weights
     (h5datav3.py:977-990, h5datav2.py: same text):
         keep = keep[:dims] + (slice(None),) * (dims - len(keep))
         data[tuple(np.newaxis if np.isscalar(k) else slice(None) for k in keep)]                        [force_full_dim]
   (H5DataV1 is not modelled here: its per-scan indexers stack the products themselves and the concatenation treats
   a scalar first index differently from the others; see design.d/C01.md.) *)
From Coq Require Import ZArith List Bool.
From KV Require Import Base.Sx Base.SelSlice Base.PySlice Base.AxisIndex Base.NdArray Model.DataSet.
From KV Require Model.LazyIdx.
Import ListNotations.
Open Scope Z_scope.

Definition is_scalar (ix : aidx) : bool := match ix with AInt _ => true | _ => false end.

(* np.isscalar of each of the n items of the index tuple padded with full slices / truncated *)
Definition scalar_axes (n : nat) (ix2 : list aidx) : list bool := map is_scalar (pad_to n ix2).

(* shape after the axes marked true have been dropped *)
Fixpoint drop_axes (sc : list bool) (shape : list Z) : list Z :=
  match sc, shape with
  | b :: r, d :: t => if b then drop_axes r t else d :: drop_axes r t
  | _, _ => shape
  end.

(* shape of data[tuple(np.newaxis if scalar else slice(None))]: a new axis of length 1 per scalar, a slice consumes
   one axis of data (more slices than axes: IndexError, modelled as the empty answer shape [-1]) *)
Fixpoint force_full_dim (sc : list bool) (shape : list Z) : list Z :=
  match sc with
  | [] => shape
  | true :: r => 1 :: force_full_dim r shape
  | false :: r => match shape with d :: t => d :: force_full_dim r t | [] => [-1] end
  end.

(* what the indexer class itself returns (numpy dimensionality) *)
Definition index_np (S : tree) (x : indexer) (ix2 : list aidx) : res nd :=
  a1 <- stage1 S x ;; oindex a1 ix2.

Definition naxes (k : kind) : nat := match k with KTime => 1%nat | _ => 3%nat end.

(* the shape of d.<kind>[ix2] as returned to the user *)
Definition answer_shape (f : fmt) (keepdims : bool) (k : kind) (ix2 : list aidx) (np_shape : list Z) : list Z :=
  match f, k with
  | (V2 | V3), (KVis | KFlags | KWeights) =>
      if keepdims then force_full_dim (scalar_axes 3 ix2) np_shape else np_shape
  | _, _ => np_shape
  end.

(* BEFORE the repair of C01x-F1: the v2 / v3 flags transform combined the data with the ONE-ELEMENT array
   _flags_select; numpy broadcasting turns a 0-d selection (all three indices scalar) into shape (1,) *)
Definition flags_np_shape_before_fix (np_shape : list Z) : list Z :=
  match np_shape with [] => [1] | s => s end.

(* ---------------- wire ---------------- *)
(* (fmt keepdims kind ix2 canonical-shape) -> (answer shape, numpy shape, flags answer shape before the repair) *)
Definition wire_1004 (x : sx) : sx :=
  match x with
  | L [I f; kd; I k; ix2; canon] =>
      let ixs := map LazyIdx.to_aidx (to_list ix2) in
      let kk := to_kind k in
      let nps := drop_axes (scalar_axes (naxes kk) ixs) (to_Zs canon) in
      L [of_Zs (answer_shape (to_fmt f) (to_bool kd) kk ixs nps); of_Zs nps;
         of_Zs (answer_shape (to_fmt f) (to_bool kd) kk ixs (flags_np_shape_before_fix nps))]
  | _ => sx_err
  end.
