(* C06, round 2b: the processing options that sit between the chunk store and the user and therefore see the
   zero-filled (lost) data: van_vleck='autocorr' (vis_flags_weights.correct_autocorr_quantisation: np.interp on the
   lookup table of van_vleck.autocorr_lookup_table) and the division of the weights by the autocorrelation power
   (weight_power_scale, stored_weights_are_scaled=False).  The numeric kernels are those of C15 (Model/Weights.v,
   extended numbers Fin q | +inf | -inf | NaN); here: what they do to an element whose chunk is LOST. *)
From Coq Require Import ZArith QArith Qcanon List Bool.
From KV Require Import Base.Sx Gen.Generated Model.Interp Model.Weights.
Import ListNotations.
Close Scope Q_scope.
Open Scope Z_scope.

(* the first node of the table as found in the source (both columns are multiplied by the returned factor) *)
Definition vv_anchor : node := (inject_Z (fst gen_vv_anchor), inject_Z (snd gen_vv_anchor)).

(* real part of a visibility after the optional correction: autocorrelations go through the table *)
Definition opt_vis_re (vv : option (list node)) (is_autocorr : bool) (re : Ext) : Ext :=
  match vv with
  | Some table => if is_autocorr then vv_interp table re else re
  | None => re
  end.

(* what the chunk store delivered for an element: the zero fill of _default_zero when its chunk is lost *)
Definition delivered (lost : bool) (x : Ext) : Ext := if lost then Fin 0 else x.

(* weights as the user gets them: stored weight (w * wc) divided by the two autocorrelation powers iff the
   stored weights are not yet scaled *)
Definition opt_weight (divided : bool) (a1 a2 sw : Ext) : Ext :=
  if divided then power_scale true a1 a2 sw else sw.

(* ---- decision table used by the correspondence: what a lost chunk does to an element under the options *)
(* visibility: 0 = exactly zero, 1 = as without the loss *)
Definition vis_class (vis_lost : bool) : Z := if vis_lost then 0 else 1.
(* weight: 0 = exactly zero, 1 = bad_weight * stored weight (the documented substitute), 2 = as without the loss *)
Definition weight_class (divided auto1_lost auto2_lost w_lost : bool) : Z :=
  if w_lost then 0 else if divided && (auto1_lost || auto2_lost) then 1 else 2.

(* (have-corrprods stored-scaled vis-lost auto1-lost auto2-lost w-or-wc-lost) -> (vis class, weight class, bad_weight num, den) *)
Definition wire_60 (x : sx) : sx :=
  match x with
  | L [hc; sc; vl; a1; a2; wl] =>
      L [I (vis_class (to_bool vl));
         I (weight_class (gen_weights_divided (to_bool hc) (to_bool sc)) (to_bool a1) (to_bool a2) (to_bool wl));
         I weights_bad_weight_num; I (Zpos weights_bad_weight_den)]
  | _ => sx_err
  end.
