(* C12 (reused by C17): piecewise-linear interpolation, held constant outside the node range.
   Model of numpy.interp(x, xp, fp) as katdal calls it (sensordata.py:_extract, no left/right/period):
   xp strictly increasing (guaranteed by `clean`), binary search replaced by a linear scan for the
   segment j with xp[j] <= x < xp[j+1]; value fp[j] + (fp[j+1]-fp[j])/(xp[j+1]-xp[j]) * (x - xp[j]);
   x < xp[0] -> fp[0]; x >= xp[-1] -> fp[-1].  Numbers are Q (no IEEE arithmetic). *)
From Coq Require Import ZArith QArith List Bool.
Import ListNotations.
Open Scope Q_scope.

Definition node := (Q * Q)%type.

(* the segment formula numpy uses: slope * (x - x0) + y0 *)
Definition seg (x0 y0 x1 y1 x : Q) : Q := (y1 - y0) / (x1 - x0) * (x - x0) + y0.

(* invariant: x0 <= x *)
Fixpoint interp_from (x0 y0 : Q) (l : list node) (x : Q) : Q :=
  match l with
  | [] => y0
  | (x1, y1) :: t => if Qle_bool x1 x then interp_from x1 y1 t x else seg x0 y0 x1 y1 x
  end.

(* numpy raises ValueError on an empty xp; katdal never calls it so (dummy sample) -> None *)
Definition interp (nodes : list node) (x : Q) : option Q :=
  match nodes with
  | [] => None
  | (x0, y0) :: t => Some (if Qle_bool x0 x then interp_from x0 y0 t x else y0)
  end.

(* total version used once the node list is known to be non-empty (default only for []) *)
Definition interp_d (nodes : list node) (x : Q) : Q :=
  match interp nodes x with Some y => y | None => 0 end.

(* ---- SPEC: declarative characterisation (relation) of piecewise-linear interpolation ---- *)
(* strictly increasing abscissae *)
Fixpoint strictly_inc (l : list node) : Prop :=
  match l with
  | [] => True
  | (x0, _) :: t => match t with [] => True | (x1, _) :: _ => x0 < x1 end /\ strictly_inc t
  end.

Inductive pl_value (nodes : list node) (x : Q) : Q -> Prop :=
| pl_left  : forall x0 y0 t, nodes = (x0, y0) :: t -> x <= x0 -> pl_value nodes x y0
| pl_right : forall xn yn h, nodes = h ++ [(xn, yn)] -> xn <= x -> pl_value nodes x yn
| pl_mid   : forall h x0 y0 x1 y1 t lam, nodes = h ++ (x0, y0) :: (x1, y1) :: t ->
      x0 <= x -> x <= x1 -> 0 <= lam -> lam <= 1 -> x == (1 - lam) * x0 + lam * x1 ->
      pl_value nodes x ((1 - lam) * y0 + lam * y1).

(* selection by a boolean mask (numpy a[mask]) *)
Fixpoint select_mask {A} (m : list bool) (l : list A) : list A :=
  match m, l with
  | b :: m', a :: l' => if b then a :: select_mask m' l' else select_mask m' l'
  | _, _ => []
  end.
