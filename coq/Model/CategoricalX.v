(* C11 (round 2): more of katdal/categorical.py inside the model.  Definitions only.
   Extends Model/Categorical.v (which other properties import and which is therefore left untouched):

   * expand_full      the per-dump list over ALL dumps 0 .. N-1 (None = no value yet: dumps before the first event,
                      legal after remove() or with a constructor whose first event is not dump 0)
   * bool_per_dump    CategoricalData._bool_per_dump modelled literally: an array of N `init` entries (np.zeros)
                      that is overwritten slice by slice, one slice per event
   * spec_getitem_full  indexing of the list of option values (a dump without value = IndexError)
   * padded / norm    the per-dump list with the first value extended back to dump 0 and the last value extended
                      forward to dump M: what partition() documents for "dumps before first event, ditto past last"
   * partition_x      partition() with its error branch (IndexError on a series without events)
   * add: behaviour for EVERY event argument (also e >= N) is characterised in Proofs/CategoricalXP.v
   * mopx / run_opsx  histories including partition + concatenate, with the documented argument domain op_okx
   * label_pipeline   the remove / align / add(0, v) sequence used by the katdal data set classes
   * wire_112         like wire_11 with the additional observables; wire_113 = unique_in_order on its own *)
From Coq Require Import ZArith List Bool Arith Lia.
From KV Require Import Base.Sx Model.Categorical.
Import ListNotations.
Open Scope nat_scope.

(* numpy: a[s:e] = b on a 1-D array (non-negative s, e; clipped to the array; nothing happens when e <= s) *)
Definition fill {A} (l : list A) (s e : nat) (b : A) : list A :=
  firstn s l ++ repeat b (Nat.min e (length l) - s) ++ skipn (Nat.max s (Nat.min e (length l))) l.

(* zip(events[:-1], events[1:]) *)
Definition ev_pairs (evs : list nat) : list (nat * nat) := combine (removelast evs) (tl evs).

Section CatX.
Context {V : Type} (veqb : V -> V -> bool) (dflt : V).
Notation cdV := (@cd V).

Definition expand_full (c : cdV) : list (option V) :=
  repeat None (hd 0 (ev c)) ++ map Some (expand dflt c).

(* _bool_per_dump(bool_per_value): bool_per_event = bool_per_value[indices]; result = np.<init>(N) overwritten per event *)
Definition bool_per_dump (init : bool) (c : cdV) (f : V -> bool) : list bool :=
  let bpe := map (fun i => nth i (map f (uv c)) false) (idx c) in
  fold_left (fun acc t => fill acc (fst (fst t)) (snd (fst t)) (snd t))
            (combine (ev_pairs (ev c)) bpe) (repeat init (ndumps c)).
(* what the documentation promises: the predicate on every dump that has a value, False elsewhere *)
Definition spec_cmp_full (X : list (option V)) (f : V -> bool) : list bool :=
  map (fun o => match o with Some v => f v | None => false end) X.

(* __len__ *)
Definition cat_len (c : cdV) : nat := length (idx c).

(* indexing the list of option values *)
Definition nth_ZO (X : list (option V)) (z : Z) : option V :=
  if (z <? 0)%Z then None else match nth_error X (Z.to_nat z) with Some (Some v) => Some v | _ => None end.
Definition glist_of (l : list (option V)) : gres :=
  match all_some l with Some r => GList r | None => GErr end.
Definition spec_getitem_full (X : list (option V)) (k : key) : gres :=
  match k with
  | KInt z => match nth_ZO X z with Some v => GVal v | None => GErr end
  | KSlice a b s =>
      match slice_range (Z.of_nat (length X)) a b s with
      | Some ps => glist_of (map (nth_ZO X) ps)
      | None => GErr
      end
  | KMask m => if length m =? length X then glist_of (map snd (filter fst (combine m X))) else GErr
  | KList l => glist_of (map (nth_ZO X) l)
  end.

(* the series with its first value extended back to dump 0 and its last value extended forward to dump M *)
Definition norm (c : cdV) (M : nat) : cdV := mk (uv c) (idx c) (0 :: tl (removelast (ev c)) ++ [M]).
Definition padded (c : cdV) (M : nat) : list V :=
  repeat (hd dflt (vals dflt c)) (hd 0 (ev c)) ++ expand dflt c ++ repeat (last (vals dflt c) dflt) (M - ndumps c).

(* partition(segments): indexing the empty index array of a series without events raises IndexError *)
Definition partition_x (c : cdV) (segs : list nat) : option (list cdV) :=
  match idx c, removelast segs with
  | [], _ :: _ => None
  | _, _ => Some (partition c segs)
  end.

(* ---------- histories including partition + concatenate ---------- *)
Definition apply_opx (c : cdV) (o : @mop V) : option cdV :=
  match o with
  | OPartConcat segs ar =>
      match partition_x c segs with Some ps => concatenate veqb dflt ps ar | None => None end
  | _ => apply_op veqb dflt c o
  end.
Fixpoint run_opsx (c : cdV) (ops : list (@mop V)) : option cdV :=
  match ops with
  | [] => Some c
  | o :: t => match apply_opx c o with Some c' => run_opsx c' t | None => None end
  end.
(* documented argument domain of an operation on a series of N dumps *)
Definition op_okx (N : nat) (o : @mop V) : Prop :=
  match o with
  | OAdd e (Some _) => e < N
  | OAlign segs => incr segs /\ In N segs
  | OPartConcat segs _ => incr segs /\ hd 0 segs = 0 /\ last segs 0 = N
  | _ => True
  end.

(* the label pipeline of katdal's data set classes (visdatav4.py / h5datav3.py / h5datav2.py):
     label.remove('');  label.align(scan.events);  if label.events[0] > 0: label.add(0, '') *)
Definition label_pipeline (c : cdV) (v : V) (segs : list nat) : option cdV :=
  match align dflt (remove veqb c v) segs with
  | Some c2 => if 0 <? hd 0 (ev c2) then add veqb c2 0 (Some v) else Some c2
  | None => None
  end.

(* segments() glued together again *)
Definition glue_segments (l : list (nat * nat * V)) : list V :=
  flat_map (fun t => repeat (snd t) (snd (fst t) - fst (fst t))) l.

End CatX.

(* ---------- unique_in_order, the fallback loop for unhashable elements, literally ----------
     lookup = {}
     for element in elements:
         token = tokenize(unwrap(element))
         try: index = lookup[token]
         except KeyError: index = len(unique_elements); lookup[token] = index; unique_elements.append(element)
         inverse.append(index)
   K = the type of tokens, tok = tokenize o unwrap, the dict is an association list *)
Section Tok.
Context {V K : Type} (keqb : K -> K -> bool) (tok : V -> K).
Fixpoint assoc (k : K) (d : list (K * nat)) : option nat :=
  match d with [] => None | (k', i) :: t => if keqb k' k then Some i else assoc k t end.
Fixpoint uio_tok_loop (d : list (K * nat)) (u : list V) (l : list V) : list V * list nat :=
  match l with
  | [] => (u, [])
  | x :: t =>
      match assoc (tok x) d with
      | Some i => let '(u', inv) := uio_tok_loop d u t in (u', i :: inv)
      | None => let i := length u in
                let '(u', inv) := uio_tok_loop ((tok x, i) :: d) (u ++ [x]) t in (u', i :: inv)
      end
  end.
Definition uio_tok (l : list V) : list V * list nat := uio_tok_loop [] [] l.
End Tok.

(* ---------- wire ---------- *)
Definition of_optZs (l : list (option Z)) : sx := L (map of_optZ l).

(* additional operations; every other code is the one of Categorical.step *)
Definition stepx (c : cdZ) (op : sx) : option cdZ * sx :=
  let XF := expand_full zd c in
  match op with
  | L [I 11%Z] =>                 (* len() *)
      (Some c, L [I 11%Z; of_nat (cat_len c)])
  | L [I 12%Z; I o; I v] =>       (* comparison over ALL dumps: literal _bool_per_dump vs the per-dump spec *)
      (Some c, L [I 12%Z; of_bools (bool_per_dump false c (cmp_fun o v)); of_bools (spec_cmp_full XF (cmp_fun o v))])
  | L [I 13%Z; k] =>              (* getitem on any series (also one that starts after dump 0) *)
      (Some c, L [I 13%Z; of_gres (getitem zd c (to_key k)); of_gres (spec_getitem_full XF (to_key k))])
  | L [I 14%Z; L others; ar; pos] =>   (* concatenate k independent series, the current one at position pos *)
      let cs := map (fun o => match o with L [vs; es] => make Z.eqb (to_Zs vs) (to_nats es)
                                         | _ => make Z.eqb [] [] end) others in
      let ps := firstn (to_nat pos) cs ++ [c] ++ skipn (to_nat pos) cs in
      match concatenate Z.eqb zd ps (to_bool ar) with
      | Some cc => (Some cc, L [I 14%Z; of_cd cc; of_Zs (concat (map (expand zd) ps))])
      | None => (None, L [I (-1)%Z])
      end
  | L [I 16%Z; segs] =>           (* partition on its own, general segments; spec = cuts of the padded list *)
      match partition_x c (to_nats segs) with
      | Some ps => (Some c, L [I 16%Z; L (map of_cd ps);
                                L (map of_Zs (spec_partition (padded zd c (last (to_nats segs) 0)) (to_nats segs)))])
      | None => (None, L [I (-1)%Z])
      end
  | L [I 18%Z; segs; ar; repl] => (* partition (general segments), then concatenate; optionally continue with it *)
      let sg := to_nats segs in
      match partition_x c sg with
      | Some ps =>
          match concatenate Z.eqb zd ps (to_bool ar) with
          | Some cc =>
              let P := padded zd c (last sg 0) in
              (Some (if to_bool repl then cc else c),
               L [I 18%Z; L (map of_cd ps); of_cd cc; L (map of_Zs (spec_partition P sg));
                  of_Zs (firstn (last sg 0 - hd 0 sg) (skipn (hd 0 sg) P))])
          | None => (None, L [I (-1)%Z])
          end
      | None => (None, L [I (-1)%Z])
      end
  | L [I 17%Z; I v; segs] =>      (* the label pipeline *)
      match label_pipeline Z.eqb zd c v (to_nats segs) with
      | Some c' => (Some c', L [I 17%Z; of_cd c'])
      | None => (None, L [I (-1)%Z])
      end
  | _ => step c op
  end.

Fixpoint stepsx (c : cdZ) (ops : list sx) : list sx :=
  match ops with
  | [] => []
  | op :: t => match stepx c op with
               | (Some c', o) => o :: stepsx c' t
               | (None, o) => [o]
               end
  end.

(* (values events ops) -> (initial-state full-per-dump-list out_1 ... out_k)   (stops after the first error) *)
Definition wire_112 (x : sx) : sx :=
  match x with
  | L [vs; es; L ops] =>
      let c := make Z.eqb (to_Zs vs) (to_nats es) in
      L (of_cd c :: stepsx c ops)
  | _ => sx_err
  end.

(* unique_in_order(elements, return_inverse=True) on its own *)
Definition wire_113 (x : sx) : sx :=
  let l := to_Zs x in
  let u := unique_in_order Z.eqb l in
  let '(u2, inv2) := uio_tok Z.eqb (fun z : Z => z) l in
  L [of_Zs u; of_nats (inverse_of Z.eqb u l); of_Zs u2; of_nats inv2].
