(* C20 (round 4): what the tasks of ONE dask graph are handed -- buffers that are SHARED, MUTABLE and WRITTEN by the kernel.

   A block function (a numba nogil kernel such as weight_power_scale) is a sequence of single memory accesses over its
   PARAMETERS: `Ld p i` reads cell i of the buffer bound to parameter p (the value is appended to what the task has seen),
   `St p i f` writes there an ARBITRARY function f of what the task has seen.  This is the finest granularity there is:
   the interleaving semantics below lets any number of tasks take turns after every single access, i.e. it covers
   compiled code running truly in parallel without the GIL, where no source line pre-emption reaches.
   `bind t p` says which buffer object task t's parameter p denotes: owner 0 = an object baked into the graph (a keyword
   argument of da.blockwise / da.map_blocks, a variable a nested block function closes over, a chunk other tasks read),
   owner S t = an object the call of task t allocated itself (a parameter the graph leaves unbound).
   Theorem (ScratchRaceP.race_free_solo): if no buffer WRITTEN by one task is touched by another, then under EVERY
   schedule every task has seen and written exactly what it sees and writes when it runs alone.  Refuted for one scratch
   buffer shared by two in-flight tasks.  The binding of the real graphs comes from the translator
   (Generated.c20_block_calls: per graph-building call what is bound to which parameter and whether the block function
   may write into it). *)
From Coq Require Import List Arith Bool ZArith String.
From KV Require Import Base.Sx Gen.Generated.
Import ListNotations.
Close Scope Z_scope.
Open Scope nat_scope.

Definition buf := (nat * nat)%type.
Definition buf_eqb (a b : buf) : bool := (fst a =? fst b) && (snd a =? snd b).

Section Mem.
Variable V : Type.
Definition mem := buf -> nat -> V.
Definition upd (m : mem) (b : buf) (i : nat) (v : V) : mem :=
  fun b' i' => if buf_eqb b b' && (i =? i') then v else m b' i'.

Inductive op := Ld (p i : nat) | St (p i : nat) (f : list V -> V).
Definition op_param (o : op) : nat := match o with Ld p _ => p | St p _ _ => p end.
Definition op_writes (o : op) : bool := match o with Ld _ _ => false | St _ _ _ => true end.
Definition touches (l : list op) (p : nat) : bool := existsb (fun o => op_param o =? p) l.
Definition writes (l : list op) (p : nat) : bool := existsb (fun o => op_writes o && (op_param o =? p)) l.

(* a task: program counter + the values it has loaded so far (most recent first) *)
Definition tstate := (nat * list V)%type.
Definition tstep (bnd : nat -> buf) (prog : list op) (m : mem) (s : tstate) : mem * tstate :=
  match nth_error prog (fst s) with
  | None => (m, s)
  | Some (Ld p i) => (m, (S (fst s), m (bnd p) i :: snd s))
  | Some (St p i f) => (upd m (bnd p) i (f (snd s)), (S (fst s), snd s))
  end.

Variable bind : nat -> nat -> buf.
Variable prog : nat -> list op.

Record config := mkC { c_mem : mem; c_th : nat -> tstate }.
Definition init (m0 : mem) : config := mkC m0 (fun _ => (0, [])).
Definition step (c : config) (t : nat) : config :=
  let r := tstep (bind t) (prog t) (c_mem c) (c_th c t) in
  mkC (fst r) (fun u => if u =? t then snd r else c_th c u).
Definition exec (m0 : mem) (sched : list nat) : config := fold_left step sched (init m0).

(* task t alone, k of its accesses *)
Fixpoint solo (m0 : mem) (t k : nat) : mem * tstate :=
  match k with
  | 0 => (m0, (0, []))
  | S k' => let r := solo m0 t k' in tstep (bind t) (prog t) (fst r) (snd r)
  end.

Definition race_free : Prop :=
  forall t u, t <> u -> forall p q, writes (prog t) p = true -> touches (prog u) q = true -> bind t p <> bind u q.
End Mem.

Arguments Ld {V}. Arguments St {V}.

(* the binding dask makes: what the graph binds is ONE object for all tasks, anything else is allocated by the call *)
Definition bind_graph (bound : nat -> bool) (t p : nat) : buf := if bound p then (0, p) else (S t, p).

(* ---------------------------------------------------------------------------------------------------------------- *)
(* the translated facts: Generated.c20_block_calls                                                                   *)
Definition arg_written (a : string * (Z * bool)) : bool := snd (snd a).
Definition block_call_ok (c : string * list (string * (Z * bool))) : bool := forallb (fun a => negb (arg_written a)) (snd c).
Definition block_calls_ok (cs : list (string * list (string * (Z * bool)))) : bool := forallb block_call_ok cs.
(* parameters of a call are numbered with the ones the graph binds first *)
Definition call_bound (c : string * list (string * (Z * bool))) (p : nat) : bool := p <? List.length (snd c).
Definition call_written (c : string * list (string * (Z * bool))) (p : nat) : bool :=
  match nth_error (snd c) p with Some a => arg_written a | None => false end.
(* a program respects the translator's flags: it writes only into bound parameters that are flagged as written (or into
   parameters the graph leaves unbound) *)
Definition respects {V} (c : string * list (string * (Z * bool))) (pr : list (op V)) : Prop :=
  forall p, writes V pr p = true -> call_bound c p = true -> call_written c p = true.

(* ---------------------------------------------------------------------------------------------------------------- *)
(* the kernel weight_power_scale for one (dump, channel): parameters 0 vis, 1 weights, 2 the scratch auto_scale, 3 out; *)
(* values in Z, "scale" = the autocorrelation itself (divide=False)                                                    *)
Definition kernel_prog (autos i1 i2 : list nat) : list (op Z) :=
  flat_map (fun ka => [Ld 0 (snd ka); St 2 (fst ka) (fun seen => hd 0%Z seen)]) (combine (seq 0 (List.length autos)) autos) ++
  flat_map (fun k => [Ld 2 (nth k i1 0); Ld 2 (nth k i2 0); Ld 1 k;
                      St 3 k (fun seen => (nth 2 seen 0 * nth 1 seen 0 * nth 0 seen 0)%Z)]) (seq 0 (List.length i1)).

(* wire_214: (autos i1 i2 shared_scratch [vis_t] [weights_t] schedule) -> per task the `out` cells after the run, per task
   the `out` cells of the task running alone, per task finished? *)
Definition mem_of (vis ws : list (list Z)) : mem Z :=
  fun b i => match b with
             | (0, 0) => 0%Z | (0, _) => 0%Z
             | (S t, 0) => nth i (nth t vis []) 0%Z
             | (S t, 1) => nth i (nth t ws []) 0%Z
             | _ => 0%Z end.
Definition wire_214 (x : sx) : sx :=
  match x with
  | L [au; a1; a2; I sh; vis; ws; sched] =>
      let autos := to_nats au in let i1 := to_nats a1 in let i2 := to_nats a2 in
      let visl := map to_Zs (to_list vis) in let wsl := map to_Zs (to_list ws) in
      let n := List.length visl in
      let bound := fun p => if Z.eqb sh 0 then false else p =? 2 in
      let pr := fun _ : nat => kernel_prog autos i1 i2 in
      let c := exec Z (bind_graph bound) pr (mem_of visl wsl) (to_nats sched) in
      let outc := fun m t => of_Zs (map (fun k => m (bind_graph bound t 3) k) (seq 0 (List.length i1))) in
      let len := List.length (kernel_prog autos i1 i2) in
      L [L (map (fun t => outc (c_mem Z c) t) (seq 0 n));
         L (map (fun t => outc (fst (solo Z (bind_graph bound) pr (mem_of visl wsl) t len)) t) (seq 0 n));
         L (map (fun t => of_bool (len <=? fst (c_th Z c t))) (seq 0 n))]
  | _ => sx_err
  end.
