(* C03 on CONCATENATED data sets: the run-on numbering of scans and compound scans done by
   katdal/concatdata.py:ConcatenatedDataSet.__init__ (the loop "Fix index sensors in underlying datasets").
   Definitions only: model, spec, wire.

   The data sets are first sorted by start time.  Then, per data set in that order and per index sensor
   (Observation/scan_index with the running offset scan_start, Observation/compscan_index with compscan_start):

       x = d.sensor.get(<sensor>)                                   the part's own index sensor, whole time axis
       x.unique_values = [index + start for index in x.unique_values]
       start += len(x.unique_values)
       d.sensor[<sensor>] = x

   and the sensor of the concatenation is concatenate_categorical(parts) (Model/Categorical.v, C11) without
   allow_repeats.  A ConcatenatedDataSet is otherwise an ordinary DataSet: select() and the generators scans() /
   compscans() are those of dataset.py (Model/Select.v, Model/Scans.v) run on the concatenated sensors, so the
   theorems of Props/C03.v about `iterate` apply to it unchanged; what is new is where its per-dump scan / compscan
   indices come from.

   The initial offsets and the amount by which an offset advances are NOT written here: cc_scan_start,
   cc_compscan_start, cc_scan_advance, cc_compscan_advance come from Gen/Generated.v (translator item
   item_concat_run_on of harness/vh/items/c03.py, fail-closed on the shape above). *)
From Coq Require Import ZArith List Bool String Arith.
From KV Require Import Base.Sx Gen.Generated Model.Scans.
From KV Require Model.Categorical.
Import ListNotations.
Open Scope Z_scope.

Definition cc_start (w : which) : Z := match w with WScans => cc_scan_start | WCompscans => cc_compscan_start end.
Definition cc_advance_rule (w : which) : string :=
  match w with WScans => cc_scan_advance | WCompscans => cc_compscan_advance end.

(* x.unique_values = [index + start for index in x.unique_values] *)
Definition shift_cd (start : Z) (c : cdz) : cdz :=
  Categorical.mk (map (fun index => index + start) (Categorical.uv c)) (Categorical.idx c) (Categorical.ev c).
(* start += len(x.unique_values): the number of scans the part HAS (not the number currently selected) *)
Definition advance (w : which) (c : cdz) : Z :=
  if String.eqb (cc_advance_rule w) "len(unique_values)" then Z.of_nat (List.length (Categorical.uv c)) else 0.

(* the parts' index sensors after the loop, parts in chronological order *)
Fixpoint run_on (w : which) (start : Z) (parts : list cdz) : list cdz :=
  match parts with
  | [] => []
  | c :: rest => let c' := shift_cd start c in c' :: run_on w (start + advance w c') rest
  end.
Definition run_on_parts (w : which) (parts : list cdz) : list cdz := run_on w (cc_start w) parts.

(* the index sensor of the concatenation (ConcatenatedSensorCache.get -> concatenate_categorical; the index sensors
   have no allow_repeats property) *)
Definition concat_index (w : which) (parts : list cdz) : option cdz :=
  Categorical.concatenate Z.eqb zd (run_on_parts w parts) false.

(* ---------------------------------------------------------------- SPEC *)
(* per-dump indices of the concatenation in time order: those of the parts, one after the other *)
Definition run_on_dumps (w : which) (parts : list cdz) : list Z :=
  List.concat (map (Categorical.expand zd) (run_on_parts w parts)).
(* collision-free and in time order: every index used by a part is smaller than every index used by a later part *)
Fixpoint separated (ls : list (list Z)) : Prop :=
  match ls with
  | [] => True
  | l :: rest => (forall x y, In x l -> In y (List.concat rest) -> x < y) /\ separated rest
  end.
Fixpoint separatedb (ls : list (list Z)) : bool :=
  match ls with
  | [] => true
  | l :: rest => forallb (fun x => forallb (fun y => x <? y) (List.concat rest)) l && separatedb rest
  end.
(* an index sensor as the format classes build it: CategoricalData(range(n), events) over a series with n events *)
Definition index_part (p : cdz) : Prop :=
  Categorical.WF p /\ Categorical.start0 p /\ Categorical.idx p <> []
  /\ Categorical.uv p = map Z.of_nat (seq 0 (List.length (Categorical.idx p)))
  /\ Categorical.vals zd p = map Z.of_nat (seq 0 (List.length (Categorical.idx p))).

(* ---------------------------------------------------------------- WIRE *)
(* (which parts) with each part as (unique_values indices events), chronological order ->
   (shifted parts, concatenated sensor or (), per-dump indices, numbered?, separated?) *)
Definition wire_33 (x : sx) : sx :=
  match x with
  | L [I wz; ps] =>
      let w := which_of wz in
      let parts := map to_cd (to_list ps) in
      let sh := run_on_parts w parts in
      let d := run_on_dumps w parts in
      L [L (map of_cd sh);
         match concat_index w parts with Some c => L [of_cd c] | None => L [] end;
         of_Zs d; of_bool (numbered d); of_bool (separatedb (map (Categorical.expand zd) sh))]
  | _ => sx_err
  end.
