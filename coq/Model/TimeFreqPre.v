(* C17 (extension): the preselect dictionary on every open path.
   MODEL of katdal code:
     datasources.py  TelstateDataSource.__init__   the validation statements, run in SOURCE ORDER (gen_ds_validate_prog) over
                                                   the generated key / step sets; the tuple handed to the chunk store
                                                   (gen_ds_index_axes, np.s_[:] for an absent key, () without preselect)
     __init__.py     katdal.open                    a list of files allows open_concat_keys only; other formats refuse the
                                                   keyword (TypeError); an RDB file hands preselect to both constructors
   MODEL of Python (trusted, tied by the correspondence against slice.indices / numpy / dask on every swept value):
     py_indices      slice(start, stop).indices(n) for a unit step; taking such a slice keeps max(hi - lo, 0) items
   No rationals here: everything is over Z and strings. *)
From Coq Require Import ZArith List Bool String.
From KV Require Import Base.Sx Base.Str Gen.Generated.
Import ListNotations.
Open Scope Z_scope.

(* a value of the preselect dictionary: slice(start, stop, step) or anything else *)
Inductive pval := PSlice (start stop step : option Z) | PNonSlice.
Definition presel := list (string * pval).      (* dict items in insertion order; keys distinct *)

Fixpoint plookup (k : string) (p : presel) : option pval :=
  match p with
  | [] => None
  | (k', v) :: r => if String.eqb k k' then Some v else plookup k r
  end.

Definition oZ_eqb (x y : option Z) : bool :=
  match x, y with None, None => true | Some a, Some b => (a =? b) | _, _ => false end.
(* `not isinstance(idx, slice) or idx.step not in {...}` is FALSE *)
Definition val_ok (v : pval) : bool :=
  match v with PSlice _ _ st => existsb (oZ_eqb st) preselect_steps | PNonSlice => false end.
Definition key_ok (allowed : list string) (kv : string * pval) : bool := mem_string (fst kv) allowed.

(* verdicts: 0 accepted | 1 IndexError (unknown key) | 2 IndexError (value not a unit-step slice)
             | 3 TypeError (format without preselect) | 4 IndexError (key not allowed for a list of files) *)
Definition ds_val_step (p : presel) (st : Z) (op : Z) : Z :=
  if negb (st =? 0) then st else
  match op with
  | 1 => if forallb (key_ok preselect_keys) p then 0 else 1
  | 2 => if forallb (fun kv => val_ok (snd kv)) p then 0 else 2
  | _ => 0
  end.
Definition the_dict (p : option presel) : presel := match p with Some d => d | None => [] end.
Definition ds_validate (p : option presel) : Z := fold_left (ds_val_step (the_dict p)) gen_ds_validate_prog 0.

(* katdal.open(filename, preselect=...) *)
Inductive okind := KRdb | KRdbList | KOther.     (* one RDB file / URL | a list of them | an HDF5 file *)
Definition open_validate (k : okind) (p : option presel) : Z :=
  match k with
  | KRdb => ds_validate p
  | KRdbList => if forallb (key_ok open_concat_keys) (the_dict p) then ds_validate p else 4
  | KOther => match p with Some _ => 3 | None => 0 end
  end.

(* SPEC of the validation (the property statement): only channels / dumps, only unit-step slices *)
Definition spec_keys_ok (allowed : list string) (p : presel) : Prop := forall k v, In (k, v) p -> In k allowed.
Definition spec_vals_ok (p : presel) : Prop :=
  forall k v, In (k, v) p -> exists a b st, v = PSlice a b st /\ (st = None \/ st = Some 1).

(* ---- Python: slice(start, stop).indices(n), unit step ---- *)
Definition py_bound (n dflt : Z) (x : option Z) : Z :=
  match x with None => dflt | Some s => if s <? 0 then Z.max (s + n) 0 else Z.min s n end.
Definition py_indices (n : Z) (v : pval) : Z * Z :=
  match v with PSlice a b _ => (py_bound n 0 a, py_bound n n b) | PNonSlice => (0, n) end.
Definition take_len (w : Z * Z) : Z := Z.max (snd w - fst w) 0.     (* len(array[slice]) *)

(* the range of axis `key` (length n) a preselection keeps: the whole axis when the key is absent *)
Definition axis_range (n : Z) (p : presel) (key : string) : Z * Z :=
  match plookup key p with Some v => py_indices n v | None => (0, n) end.

(* preselect_index as ChunkStoreVisFlagsWeights receives it, normalised per axis against the stored shape:
   () when there is no preselection; per axis of gen_ds_index_axes None for np.s_[:] (absent key) *)
Definition pre_index (shape : list Z) (p : presel) : list (option (Z * Z)) :=
  match p with
  | [] => []
  | _ => map (fun an => match plookup (fst an) p with Some v => Some (py_indices (snd an) v) | None => None end)
             (combine gen_ds_index_axes shape)
  end.

(* ---- wire ---- *)
Definition to_pval (x : sx) : pval :=
  match x with L [a; b; s] => PSlice (to_optZ a) (to_optZ b) (to_optZ s) | _ => PNonSlice end.
Definition to_presel (x : sx) : presel :=
  map (fun kv => match kv with L [k; v] => (to_string k, to_pval v) | _ => (EmptyString, PNonSlice) end) (to_list x).
Definition to_opresel (x : sx) : option presel := match x with L [d] => Some (to_presel d) | _ => None end.
Definition of_win (w : option (Z * Z)) : sx := match w with Some (lo, hi) => L [I lo; I hi] | None => L [] end.

(* (1 kind preselect)      -> verdict        kind: 0 RDB, 1 list of RDBs, 2 other format
   (2 n start stop)        -> (lo hi len)    slice(start, stop).indices(n)
   (3 (T F) preselect)     -> preselect_index *)
Definition wire_171 (x : sx) : sx :=
  match x with
  | L [I 1; I k; p] =>
      I (open_validate (match k with 0 => KRdb | 1 => KRdbList | _ => KOther end) (to_opresel p))
  | L [I 2; I n; a; b] =>
      let w := py_indices n (PSlice (to_optZ a) (to_optZ b) None) in L [I (fst w); I (snd w); I (take_len w)]
  | L [I 3; shape; p] => L (map of_win (pre_index (to_Zs shape) (to_presel p)))
  | _ => sx_err
  end.
