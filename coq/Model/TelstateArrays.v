(* C18, second layer: a chunk info with ALL its arrays (name -> shape, time chunks, own 'prefix' or none), as the
   dict that _ensure_prefix_is_set / _upgrade_chunk_info / _upgrade_flags / _align_chunk_info of katdal/datasources.py
   walk through.  Model.Telstate keeps a chunk info reduced to its flags array; here every array has its own shape,
   its own prefix (or takes the chunk name of the view it is read through) and is replaced / refused / aligned on
   its own.  GENERATED (items/c18.py, item_chunk_arrays): uci_lo uci_hi (the slice of the shape that is compared),
   uci_refuses (the comparison), al_phantom (length of a phantom chunk), al_extends (the test `n_dumps < max_dumps`). *)
From Coq Require Import ZArith List Bool String.
From KV Require Import Base.Sx Base.Str Gen.Generated Model.Telstate.
Import ListNotations.
Open Scope string_scope.

(* one array of a chunk info: the id of the chunk info VALUE it belongs to, its shape (dumps first), its time
   chunks, the id of the name its chunks live under (None = the entry has no 'prefix') *)
Record arr := mkA { a_id : Z; a_shape : list Z; a_chunks : list Z; a_prefix : option Z }.
(* a Python dict in insertion order *)
Definition cdict := list (string * arr).

Fixpoint dget (d : cdict) (k : string) : option arr :=
  match d with
  | [] => None
  | (k', v) :: t => if String.eqb k' k then Some v else dget t k
  end.
(* d[k] = v : an existing key keeps its position, a new one goes last *)
Fixpoint dset (d : cdict) (k : string) (v : arr) : cdict :=
  match d with
  | [] => [(k, v)]
  | (k', v') :: t => if String.eqb k' k then (k', v) :: t else (k', v') :: dset t k v
  end.
Definition dkeys (d : cdict) : list string := map fst d.

(* _ensure_prefix_is_set(chunk_info, telstate): for info in chunk_info.values(): if 'prefix' not in info:
   info['prefix'] = telstate['chunk_name']   ([name] = the value the view gives, None = KeyError = Err 2; the key
   is only read when some array needs it) *)
Fixpoint ensure_prefix (name : option Z) (d : cdict) : res cdict :=
  match d with
  | [] => Ok []
  | (k, a) :: t =>
      match a_prefix a with
      | Some _ => match ensure_prefix name t with Ok t' => Ok ((k, a) :: t') | Err e => Err e end
      | None =>
          match name with
          | None => Err 2
          | Some n => match ensure_prefix name t with
                      | Ok t' => Ok ((k, mkA (a_id a) (a_shape a) (a_chunks a) (Some n)) :: t')
                      | Err e => Err e
                      end
          end
      end
  end.

(* shape[lo:hi] *)
Definition pyslice (lo : nat) (hi : option nat) (l : list Z) : list Z :=
  match hi with None => skipn lo l | Some h => firstn (h - lo) (skipn lo l) end.
Definition shape_key (s : list Z) : list Z := pyslice uci_lo uci_hi s.

(* _upgrade_chunk_info(chunk_info, improved): for key, improved_info in improved.items():
     original_info = chunk_info.get(key, improved_info)
     if improved_info['shape'][1:] != original_info['shape'][1:]: raise ValueError        (Err 1)
     chunk_info[key] = improved_info *)
Fixpoint upgrade_chunk_info (d : cdict) (imp : cdict) : res cdict :=
  match imp with
  | [] => Ok d
  | (k, a) :: t =>
      let orig := match dget d k with Some o => o | None => a end in
      if uci_refuses (zs_eqb (shape_key (a_shape a)) (shape_key (a_shape orig))) then Err 1
      else upgrade_chunk_info (dset d k a) t
  end.

(* an archived stream as _upgrade_flags sees it through the candidate's view: stream_type, src_streams (None =
   KeyError), chunk_info (None = KeyError) with all its arrays, chunk_name (None = absent) *)
Record fstreamA := mkFA { fa_type : option string; fa_src : option (list string); fa_info : option cdict;
                          fa_name : option Z }.
Definition typeA_is_flags (f : fstreamA) : bool :=
  match fa_type f with Some t => String.eqb t fl_type | None => false end.
Definition is_flag_sourceA (stream : string) (f : fstreamA) : bool :=
  (typeA_is_flags f && match fa_src f with Some l => mem_string stream l | None => false end)%bool.

Fixpoint upgrade_flags_A (stream : string) (cur : cdict) (archived : list fstreamA) : res cdict :=
  match archived with
  | [] => Ok cur
  | f :: fs =>
      if typeA_is_flags f then
        match fa_src f with
        | None => Err 2
        | Some src =>
            if mem_string stream src then
              match fa_info f with
              | None => Err 2
              | Some i =>
                  match ensure_prefix (fa_name f) i with
                  | Err e => Err e
                  | Ok i' => match upgrade_chunk_info cur i' with
                             | Err e => Err e
                             | Ok c => upgrade_flags_A stream c fs
                             end
                  end
              end
            else upgrade_flags_A stream cur fs
        end
      else upgrade_flags_A stream cur fs
  end.

(* _align_chunk_info: max_dumps = max(shape[0] ...); an array with n_dumps < max_dumps gets shape[0] = max_dumps and
   (max_dumps - n_dumps) phantom chunks of length al_phantom after its own chunks *)
Definition a_dumps (a : arr) : Z := match a_shape a with n :: _ => n | [] => 0 end.
Definition align_arr (maxd : Z) (a : arr) : arr :=
  if al_extends (a_dumps a) maxd
  then mkA (a_id a) (maxd :: tl (a_shape a)) (a_chunks a ++ repeat al_phantom (Z.to_nat (maxd - a_dumps a))) (a_prefix a)
  else a.
Definition max_dumps (d : cdict) : Z := zmax_list (map (fun p => a_dumps (snd p)) d).
Definition align_A (d : cdict) : cdict := map (fun p => (fst p, align_arr (max_dumps d) (snd p))) d.

(* what TelstateDataSource.__init__ does with the chunk info (sequence pinned by item_open): own info completed with
   the chunk name of the opened stream's view, upgrade unless disabled, alignment *)
Definition prepare (upgrade : bool) (stream : string) (own : cdict) (own_name : option Z) (archived : list fstreamA)
    : res cdict :=
  match ensure_prefix own_name own with
  | Err e => Err e
  | Ok own' =>
      match (if upgrade then upgrade_flags_A stream own' archived else Ok own') with
      | Err e => Err e
      | Ok c => Ok (align_A c)
      end
  end.
(* number of synthesised timestamps: shape[0] of the generated array ds_dumps_array ('correlator_data'); None = KeyError *)
Definition n_timestamps (d : cdict) : option Z := option_map a_dumps (dget d ds_dumps_array).

(* SPEC of the upgrade, array by array.  A candidate that is a flags stream of the opened stream offers its arrays;
   array [k] of the data set is that of the LAST offering candidate, else the stream's own; an offered array whose
   channel / baseline / further axes differ from the array it would replace is an error; so is a flags stream without
   sources, chunk info or (when needed) chunk name.  Walks the candidates once, as the statement of the property. *)
Definition offers (stream : string) (f : fstreamA) : bool := is_flag_sourceA stream f.
Definition rest_of (a : arr) : list Z := tl (a_shape a).

(* ---- the flags-only abstraction of Model.Telstate, as a projection ---- *)
Definition flags_name : string := "flags".
Definition cinfo_of (d : cdict) : option cinfo :=
  match dget d flags_name with
  | Some a => match a_prefix a with
              | Some p => Some (mkC (a_id a) (a_dumps a) (rest_of a) p)
              | None => None
              end
  | None => None
  end.
Definition only_flags (f : fstreamA) : bool :=
  match fa_info f with Some [(k, _)] => String.eqb k flags_name | Some _ => false | None => true end.
Definition fstream_of_A (f : fstreamA) : fstream :=
  mkF (fa_type f) (fa_src f)
      (match fa_info f with
       | Some i => match ensure_prefix (fa_name f) i with Ok i' => cinfo_of i' | Err _ => None end
       | None => None
       end).

(* ---------- wire ---------- *)
Definition to_arr (x : sx) : string * arr :=
  match x with
  | L [k; I i; shape; chunks; p] => (to_string k, mkA i (to_Zs shape) (to_Zs chunks) (to_optZ p))
  | _ => (""%string, mkA 0 [] [] None)
  end.
Definition to_cdict (x : sx) : cdict := map to_arr (to_list x).
Definition of_arr (p : string * arr) : sx :=
  L [of_string (fst p); I (a_id (snd p)); of_Zs (a_shape (snd p)); of_Zs (a_chunks (snd p));
     match a_prefix (snd p) with Some z => L [I z] | None => L [] end].
Definition of_res_cdict (r : res cdict) : sx :=
  match r with Ok d => L [I 0; L (map of_arr d)] | Err e => L [I (-1); I e] end.
Definition to_fstreamA (x : sx) : fstreamA :=
  match x with
  | L [ty; src; info; name] =>
      mkFA (to_optstring ty) (match src with L [l] => Some (to_strings l) | _ => None end)
           (match info with L [d] => Some (to_cdict d) | _ => None end) (to_optZ name)
  | _ => mkFA None None None None
  end.

(* (1 upgrade? stream own own_name archived) -> prepare: (0 dict) | (-1 code), then (n_timestamps)
   (2 d imp)                               -> _upgrade_chunk_info
   (3 name d)                              -> _ensure_prefix_is_set
   (4 d)                                   -> _align_chunk_info *)
Definition wire_181 (x : sx) : sx :=
  match x with
  | L [I 1; up; stream; own; name; archived] =>
      let r := prepare (to_bool up) (to_string stream) (to_cdict own) (to_optZ name)
                       (map to_fstreamA (to_list archived)) in
      L [of_res_cdict r; match r with Ok d => of_optZ' (n_timestamps d) | Err _ => L [] end]
  | L [I 2; d; imp] => of_res_cdict (upgrade_chunk_info (to_cdict d) (to_cdict imp))
  | L [I 3; name; d] => of_res_cdict (ensure_prefix (to_optZ name) (to_cdict d))
  | L [I 4; d] => of_res_cdict (Ok (align_A (to_cdict d)))
  | _ => sx_err
  end.
