(* C01 (extension round): the frequency axis that each HDF5 reader (v1, v2, v3) builds from what the FILE says, so
   that "freqs are the labels of those same channels" is stated against the stored attributes, not against the data
   set's own spectral window.

   MODEL: the SpectralWindow each __init__ constructs.  Every attribute name, expression, constant, default and the
   order of the v3 overrides comes from Gen/Generated.v (harness/vh/items/c01.py:item_c01_freq_axes re-translates it):
     spectral_window.py  SpectralWindow.__init__          gen_spw_default_sideband (-1: lower sideband, "LSB mixing")
     h5datav1.py:212-219 SpectralWindow(center_frequency_hz, channel_bandwidth_hz, num_freq_channels, 'poco')
                                                          gen_v1_freq_attrs, gen_v1_sideband (none passed)
     h5datav2.py:312-331 centre from the sensor RFE/center-frequency-hz (version >= 2.1) or RFE/rfe7.lo1.frequency
                         - 4200e6; width = bandwidth / n_chans; one window per centre value
                                                          gen_v2_centre_sensors, gen_v2_lo_correction,
                                                          gen_v2_channel_width, gen_v2_sideband (none passed)
     h5datav3.py:484-542 spw_params = rx_table.get(band, ...) updated statement by statement, the SpectralWindow call
                                                          gen_v3_rx_table, gen_v3_rx_default, gen_v3_bw_workaround,
                                                          gen_v3_ku_*, gen_v3_fake_uhf, gen_v3_channel_width,
                                                          gen_v3_default_centre, gen_v3_spw_prog (statement order)
   The window object and its channel_freqs are C17's model of SpectralWindow (Model/TimeFreq.v: spw_init, chan_freq =
   the regenerated gen_spw_channel_freq), imported unchanged.
   SPEC: the documented axis, written by hand and independent of Generated.v ([spec_axis], [spec_freq]). *)
From Coq Require Import ZArith QArith List Bool String.
From KV Require Import Base.Sx Base.Str Gen.Generated Model.DataSet.
From KV Require Model.Select Model.TimeFreq.
Import ListNotations.
Open Scope Z_scope.

(* what the file (and the open() call) says about the frequency axis *)
Record fattrs := {
  fa_centre : Q;          (* v1: Correlator.center_frequency_hz; v2: the value of the centre-frequency sensor *)
  fa_bw : Q;              (* v1: Correlator.channel_bandwidth_hz (a channel WIDTH); v2 / v3: the bandwidth attribute *)
  fa_n : Z;               (* number of channels (metadata = data) *)
  fa_old : bool;          (* v2: file version < 2.1: the sensor is the RFE7 LO1 frequency *)
  fa_band : string;       (* v3: receiver band ('l', 'u', 'x', ...) *)
  fa_l0 : option Q;       (* v3: the SDP L0 center_freq attribute, when present *)
  fa_param : option Q;    (* v3: the centre_freq= argument of open() *)
  fa_siggen : option Q    (* v3: Ku signal generator frequency sensor, when present *)
}.

Definition q_v2_cw := @gen_v2_channel_width Q Qplus Qminus Qmult Qdiv inject_Z.
Definition q_v2_lo := @gen_v2_lo_correction Q Qplus Qminus Qmult Qdiv inject_Z.
Definition q_v3_cw := @gen_v3_channel_width Q Qplus Qminus Qmult Qdiv inject_Z.
Definition q_v3_ku := @gen_v3_ku_centre Q Qplus Qminus Qmult Qdiv inject_Z.

(* a SpectralWindow call that passes no sideband gets the default of SpectralWindow.__init__ *)
Definition sideband_of (o : option Z) : Z := match o with Some s => s | None => gen_spw_default_sideband end.

Definition window_v1 (a : fattrs) : TimeFreq.spw :=
  TimeFreq.spw_init (fa_centre a, fa_bw a, fa_n a, sideband_of gen_v1_sideband, None).

Definition window_v2 (a : fattrs) : TimeFreq.spw :=
  TimeFreq.spw_init ((if fa_old a then q_v2_lo (fa_centre a) else fa_centre a), q_v2_cw (fa_bw a) (fa_n a), fa_n a,
                     sideband_of gen_v2_sideband, None).

(* v3: the dict spw_params and the locals bandwidth / num_chans, statement by statement in source order *)
Record v3st := mkV3 { v_band : string; v_centre : option Q; v_side : Z; v_bw : Q; v_cw : Q; v_n : Z;
                      v_win : option TimeFreq.spw }.

Definition truthy (o : option Q) : option Q :=          (* `if centre_freq:` / `if siggen_freq:` *)
  match o with Some q => if Qeq_bool q 0 then None else Some q | None => None end.

Definition v3_step (a : fattrs) (st : v3st) (op : Z) : v3st :=
  match op with
  | 1 => let r := match find (fun p => String.eqb (fst p) (fa_band a)) gen_v3_rx_table with
                  | Some p => snd p | None => gen_v3_rx_default end in
         mkV3 (fst r) (option_map inject_Z (fst (snd r))) (snd (snd r)) (v_bw st) (v_cw st) (v_n st) (v_win st)
  | 2 => if Qeq_bool (v_bw st) (inject_Z (fst gen_v3_bw_workaround))
         then mkV3 (v_band st) (v_centre st) (v_side st) (inject_Z (snd gen_v3_bw_workaround)) (v_cw st) (v_n st) (v_win st)
         else st
  | 3 => if String.eqb (v_band st) gen_v3_ku_band then
           match truthy (fa_siggen a) with
           | Some f => mkV3 (v_band st) (Some (q_v3_ku f)) (v_side st) (v_bw st) (v_cw st) (v_n st) (v_win st)
           | None => st
           end
         else if String.eqb (v_band st) (fst gen_v3_fake_uhf)
                 && Qeq_bool (v_bw st) (inject_Z (fst (snd gen_v3_fake_uhf))) then
           mkV3 (v_band st) (Some (inject_Z (fst (snd (snd gen_v3_fake_uhf))))) (snd (snd (snd gen_v3_fake_uhf)))
                (v_bw st) (v_cw st) (v_n st) (v_win st)
         else st
  | 4 => match fa_l0 a with
         | Some c => mkV3 (v_band st) (Some c) (v_side st) (v_bw st) (v_cw st) (v_n st) (v_win st)
         | None => st end
  | 5 => mkV3 (v_band st) (v_centre st) (v_side st) (v_bw st) (q_v3_cw (v_bw st) (fa_n a)) (v_n st) (v_win st)
  | 6 => st                                   (* metadata and data agree on the channel count (modelled domain) *)
  | 7 => match truthy (fa_param a) with
         | Some c => mkV3 (v_band st) (Some c) (v_side st) (v_bw st) (v_cw st) (v_n st) (v_win st)
         | None => st end
  | 8 => match v_centre st with
         | None => mkV3 (v_band st) (Some (inject_Z gen_v3_default_centre)) (v_side st) (v_bw st) (v_cw st) (v_n st) (v_win st)
         | Some _ => st end
  | 9 => mkV3 (v_band st) (v_centre st) (v_side st) (v_bw st) (v_cw st) (fa_n a) (v_win st)
  | 10 => match v_centre st with
          | Some c => mkV3 (v_band st) (v_centre st) (v_side st) (v_bw st) (v_cw st) (v_n st)
                           (Some (TimeFreq.spw_init (c, v_cw st, v_n st, v_side st, None)))
          | None => st end                    (* the SpectralWindow call without centre_freq: TypeError *)
  | _ => st
  end.

Definition v3_run (a : fattrs) : v3st :=
  fold_left (v3_step a) gen_v3_spw_prog (mkV3 "" None 0 (fa_bw a) 0%Q 0 None).

Definition window_v3 (a : fattrs) : option TimeFreq.spw := v_win (v3_run a).

(* the single spectral window of a v1 / v2 / v3 data set (v2: the window of one centre-frequency value) *)
Definition window_of (f : fmt) (a : fattrs) : option TimeFreq.spw :=
  match f with
  | V1 => Some (window_v1 a)
  | V2 => Some (window_v2 a)
  | V3 => window_v3 a
  | V4 => None                                (* v4: Model/DataSetPre.v *)
  end.

(* freqs under selection s *)
Definition axis_freqs (w : TimeFreq.spw) (s : Select.st) : list Q := freqs (TimeFreq.freqs_full w) s.

(* ---------------- SPEC (documented) ----------------
   KAT-7 (v1, v2): lower-sideband mixing, channel 0 is the HIGHEST frequency: f(k) = centre - (k - n // 2) * width;
     v1 stores the channel width, v2 the total bandwidth; v2 files older than 2.1 store the RFE7 LO1 frequency, the
     centre of the band lies 4200 MHz below it.
   MeerKAT (v3): L band centred on 1284 MHz and UHF on 816 MHz, upper sideband: f(k) = centre + (k - n // 2) * width;
     a UHF receiver behind the L-band digitiser (856 MHz bandwidth: "fake UHF") is centred on 428 MHz with a flipped
     spectrum; Ku: 100 * siggen + 1284 MHz when the signal generator frequency is known; the centre is overridden by
     the L0 center_freq attribute and then by the centre_freq= argument; 0 Hz when nothing is known; the bandwidth
     857.152196 MHz reported by a faulty CBF means 856 MHz.  width = bandwidth / n. *)
Definition spec_bw (a : fattrs) : Q :=
  if Qeq_bool (fa_bw a) (inject_Z 857152196) then inject_Z 856000000 else fa_bw a.
(* the spectrum is flipped (channel 0 is the highest frequency) *)
Definition spec_lower (f : fmt) (a : fattrs) : bool :=
  match f with
  | V1 | V2 => true
  | V3 | V4 => String.eqb "u" (fa_band a) && Qeq_bool (spec_bw a) (inject_Z 856000000)
  end.
Definition spec_axis (f : fmt) (a : fattrs) : Q * Q :=      (* (centre, signed channel step) *)
  match f with
  | V1 => (fa_centre a, - fa_bw a)%Q
  | V2 => ((if fa_old a then fa_centre a - inject_Z 4200000000 else fa_centre a), - (fa_bw a / inject_Z (fa_n a)))%Q
  | V3 | V4 =>
      let base : option Q :=
        if String.eqb "l" (fa_band a) then Some (inject_Z 1284000000)
        else if String.eqb "u" (fa_band a) then
          Some (if spec_lower V3 a then inject_Z 428000000 else inject_Z 816000000)
        else if String.eqb "x" (fa_band a) then
          match truthy (fa_siggen a) with Some g => Some (inject_Z 100 * g + inject_Z 1284000000)%Q | None => None end
        else None in
      let c1 := match fa_l0 a with Some c => Some c | None => base end in
      let c2 := match truthy (fa_param a) with Some c => Some c | None => c1 end in
      ((match c2 with Some c => c | None => 0 end),
       (if spec_lower V3 a then - (spec_bw a / inject_Z (fa_n a)) else spec_bw a / inject_Z (fa_n a)))%Q
  end.
Definition spec_freq (f : fmt) (a : fattrs) (k : Z) : Q :=
  (fst (spec_axis f a) + snd (spec_axis f a) * inject_Z (k - fa_n a / 2))%Q.

(* ---------------- wire ---------------- *)
Definition to_fattrs (x : sx) : fattrs :=
  match x with
  | L [ce; bw; I n; old; band; l0; par; sg] =>
      {| fa_centre := TimeFreq.to_Q ce; fa_bw := TimeFreq.to_Q bw; fa_n := n; fa_old := to_bool old;
         fa_band := to_string band; fa_l0 := TimeFreq.to_optQ l0; fa_param := TimeFreq.to_optQ par;
         fa_siggen := TimeFreq.to_optQ sg |}
  | _ => {| fa_centre := 0%Q; fa_bw := 1%Q; fa_n := 1; fa_old := false; fa_band := ""; fa_l0 := None; fa_param := None;
            fa_siggen := None |}
  end.

(* (fmt attrs) -> () | (window, channel freqs, spec channel freqs, lower sideband?, spec: lower sideband?) *)
Definition wire_1003 (x : sx) : sx :=
  match x with
  | L [I f; fa] =>
      let a := to_fattrs fa in
      match window_of (to_fmt f) a with
      | Some w =>
          L [TimeFreq.of_spw w; L (map TimeFreq.of_Q (TimeFreq.freqs_full w));
             L (map (fun k => TimeFreq.of_Q (spec_freq (to_fmt f) a k)) (TimeFreq.zrange 0 (Z.to_nat (fa_n a))));
             of_bool (TimeFreq.s_side w =? -1); of_bool (spec_lower (to_fmt f) a)]
      | None => L []
      end
  | _ => sx_err
  end.
