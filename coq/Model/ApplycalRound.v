(* C13: "restored to within single-precision rounding" - the exact part is the field identity (ApplycalP.inverts);
   here the rounding is a STATED bound in the standard model of floating-point error analysis: every rounded
   operation returns  exact * (1 + e)  with a relative error e (a complex number) of magnitude at most eps.
   Between the solutions and the corrected visibility katdal only multiplies, conjugates and takes reciprocals
   (np.reciprocal, g *= ..., g1 * conj(g2), data * c), so the relative errors of all steps multiply through to
   the end:  result = exact * prod (1 + e_k).  Numbers stay exact rationals (Qc); magnitudes are compared squared. *)
From Coq Require Import ZArith QArith Qcanon List.
From KV Require Import Model.Applycal.
Import ListNotations.
Local Open Scope Qc_scope.

Definition Cadd (x y : C) : C :=
  match x, y with CFin a b, CFin c d => CFin (a + c) (b + d) | _, _ => CNaN end.
(* the accumulated relative error factor of a list of rounding steps *)
Definition perturb (es : list C) : C := Cprod (map (Cadd Cone) es).
(* |e| <= eps *)
Definition small (eps : Qc) (e : C) : Prop := exists a b, e = CFin a b /\ norm2 a b <= eps * eps.
(* (1 + eps)^n - 1 *)
Fixpoint rbound (eps : Qc) (n : nat) : Qc :=
  match n with O => 0 | S k => rbound eps k + eps + rbound eps k * eps end.
