(* C02: DataSet.select as the CALLER sees it - the method body (Model/SelectX.v, `xselect`) under the decorator
   `_restore_selection_on_error` of katdal/dataset.py (repair of finding F74):

       keeps = (self._time_keep, self._freq_keep, self._corrprod_keep); old contents copied
       old_selection = dict(self._selection); old_state = (spw, subarray, _weights_keep, _flags_keep)
       try:    return select(self, **kwargs)
       except Exception:  every remembered attribute is put back (the masks in place), then re-raise

   Whether `select` carries the decorator (`sel_atomic`) and WHICH attributes the handler puts back
   (`sel_atomic_restores`) are read from the source (translator item item_select_atomic); `restore` interprets that
   list, so a handler that forgets an attribute gives a different model and breaks `restore_is_old`
   (Proofs/SelectAP.v).  The public attributes are not in the list: the body only assigns them after the last
   statement that can raise (lemma `xselect_pub_unchanged`). *)
From Coq Require Import ZArith List Bool String.
From KV Require Import Base.Sx Base.Str Base.SelSlice Gen.Generated Model.Select Model.SelectX.
Import ListNotations.
Open Scope Z_scope.

Definition restore_field (old cur : xst) (name : string) : xst :=
  let c := x_core cur in
  let o := x_core old in
  if String.eqb name "_time_keep" then with_core (mset DT (tk o) c) (x_spw cur) (x_sub cur) (x_pub cur)
  else if String.eqb name "_freq_keep" then with_core (mset DF (fk o) c) (x_spw cur) (x_sub cur) (x_pub cur)
  else if String.eqb name "_corrprod_keep" then with_core (mset DB (bk o) c) (x_spw cur) (x_sub cur) (x_pub cur)
  else if String.eqb name "_selection" then with_core (set_sel (sel o) c) (x_spw cur) (x_sub cur) (x_pub cur)
  else if String.eqb name "_weights_keep" then with_core (set_wk (wk o) c) (x_spw cur) (x_sub cur) (x_pub cur)
  else if String.eqb name "_flags_keep" then with_core (set_flk (flk o) c) (x_spw cur) (x_sub cur) (x_pub cur)
  else if String.eqb name "spw" then with_core c (x_spw old) (x_sub cur) (x_pub cur)
  else if String.eqb name "subarray" then with_core c (x_spw cur) (x_sub old) (x_pub cur)
  else cur.
Definition restore (old cur : xst) : xst := fold_left (restore_field old) sel_atomic_restores cur.

(* the decorated method: an exception of whatever class puts the remembered attributes back *)
Definition xselect_a (xo : xobs) (s : xst) (xkw : xkwargs) : outcome * xst :=
  let r := xselect xo s xkw in
  if sel_atomic then match fst r with OOk => r | oc => (oc, restore s (snd r)) end else r.

(* outcome and masks / window / subarray after every call of a history *)
Fixpoint xrun_a (xo : xobs) (s : xst) (calls : list xkwargs) : list (outcome * xmasks) :=
  match calls with
  | [] => []
  | c :: rest => let r := xselect_a xo s c in (fst r, xm_of (snd r)) :: xrun_a xo (snd r) rest
  end.
(* the state after a history *)
Definition xafter_a (xo : xobs) (s : xst) (calls : list xkwargs) : xst :=
  fold_left (fun s c => snd (xselect_a xo s c)) calls s.

(* wire: same layout as wire_21, the model column is the decorated method *)
Fixpoint xrun_history_a (xo : xobs) (s : xst) (calls : list xkwargs) : list sx :=
  match calls with
  | [] => []
  | c :: rest =>
      let r := xselect_a xo s c in
      let sp := xspec_select xo (xm_of s) c in
      L [L (of_outcome (fst r) :: of_xst (snd r));
         L (of_outcome (fst sp) :: of_xmasks (snd sp) ++ [of_pub (spec_pub xo (snd sp));
                                                          of_bools (xspec_dims xo (xm_of s) c)])]
      :: xrun_history_a xo (snd r) rest
  end.

(* (xobs (call ...)) -> (initial-state ((model spec) ...)) *)
Definition wire_23 (x : sx) : sx :=
  match x with
  | L [ob; calls] =>
      let xo := to_xobs ob in
      L [L (of_xst (xinit xo)); L (xrun_history_a xo (xinit xo) (map to_xkwargs (to_list calls)))]
  | _ => sx_err
  end.
