(* C12 (extension round 2): the NUMERIC side of SensorCache._extract with its result type, the arithmetic virtual
   sensors with exact rational semantics, and the cached source arrays of a virtual sensor as state.
   Definitions only.

   1. `extract_t`: SensorCache._extract with the dtype of what it returns.  np.interp(timestamps, xp, fp) converts
      fp with astype(float64) and returns float64, whatever the dtype of the samples: an int sensor read with
      categorical=False is NOT rounded back to int, a bool sensor is interpolated between 0.0 and 1.0; strings /
      objects make np.interp raise.  `initial_value` is read in ONE place only - the dummy replacement of a sensor
      without usable samples.
   2. The virtual sensors that are plain arithmetic, inside the model (no uninterpreted function):
      Timestamps/mjd = t / 86400 + 40587 (Model/SensorVirt.mjd_q), Antennas/{ant}/az|el = katpoint.deg2rad(source) =
      source * (pi / 180) with pi the float64 constant (`pi64`, an exact dyadic rational).  The float64 result of the
      code differs from the rational one by the roundings of pi / 180 and of one product: relative 2^-52 at most
      (stated tolerance of the correspondence: 4e-16 relative).
   3. `run_v`: the history machine of Model/SensorCache.v with the arrays of the SOURCE sensors as state: a virtual
      sensor function receives the cached arrays of its sources (cache.get returns the cached object itself).
      `ipv = true` models a function that converts the array of its first source IN PLACE and stores that same array
      under the produced name (what `sensor_data *= pi / 180` or `np.deg2rad(x, out=x)` would do, and what
      `_calc_target_coords` did before the repair C12-F4); `ipv = false` is the code as it is (the translator counts
      the in-place writes on cached sources: Generated.virtual_inplace_writes). *)
From Coq Require Import ZArith QArith List Bool String.
From KV Require Import Base.Sx Base.Str Gen.Generated Model.Interp Model.SensorCache Model.SensorVirt.
Import ListNotations.
Open Scope Q_scope.

(* ------------------------------------------------------------------ 1. typed extraction *)
Inductive tres := TNum (dt : dtype) (l : list qn) | TCat (d : option dval) | TErr.

(* dtypes np.interp accepts for fp (converted with astype(float64)): float, int, bool *)
Definition interp_accepts (dt : dtype) : bool :=
  match dt with DFloat | DInt | DBool => true | _ => false end.

(* dtype of the interpolated result.  Generated.sensor_numeric_cast is the cast _extract applies to np.interp's
   result: "" = none (the result stays float64) *)
Definition numeric_dtype (sample_dt : dtype) : dtype :=
  if String.eqb sensor_numeric_cast ""%string then DFloat else sample_dt.

Definition with_init (p : props) (iv : option ival) : props := mkP (p_off p) (p_cat p) iv.

Definition extract_t (g : getter) (ts : list Q) (p : props) : tres :=
  match usable g p with
  | [] =>
      let '(dt, dv) := dummy_value (p_init p) (g_dtype g) in
      if decide_cat p dt then TCat (Some dv)
      else match dv with
           | VNum q => TNum (numeric_dtype dt) (map (fun _ => q) ts)
           | VInt z => TNum (numeric_dtype dt) (map (fun _ => Some (inject_Z z)) ts)
           | VFalse => TNum (numeric_dtype dt) (map (fun _ => Some 0) ts)
           | _ => TErr
           end
  | cl =>
      if decide_cat p (g_dtype g) then TCat None
      else if interp_accepts (g_dtype g)
           then TNum (numeric_dtype (g_dtype g)) (map (fun x => Some (interp_d (nodes_of cl) x)) ts)
           else TErr
  end.

Definition erase (r : tres) : xres :=
  match r with TNum _ l => XVals l | TCat d => XCat d | TErr => XErr end.

(* SPEC of the numeric read, written without the dummy branch and without initial_value: the value at a dump *)
Definition spec_numeric (g : getter) (off : Q) (t : Q) : option Q :=
  spec_value (spec_survivors (g_has_status g) (shift off (g_samples g))) t.

(* ------------------------------------------------------------------ 2. arithmetic virtual sensors *)
(* numpy.pi = 0x400921FB54442D18 = 884279719003555 / 2^48 exactly *)
Definition pi64 : Q := 884279719003555 # 281474976710656.
(* katpoint.deg2rad(x) = x * (np.pi / 180.0); rad2deg(x) = x * (180.0 / np.pi) *)
Definition deg2rad_q (x : Q) : Q := x * (pi64 / 180).
Definition rad2deg_q (x : Q) : Q := x * (180 / pi64).

(* the conversion `_calc_azel` applies: Generated.azel_convert is the katpoint function found in the source *)
Definition azel_conv_q (x : Q) : Q :=
  if String.eqb azel_convert "deg2rad"%string then deg2rad_q x else rad2deg_q x.

(* per-dump function of Antennas/{ant}/az and el: the source value AT THE DUMP, converted; NaN stays NaN *)
Definition deg2rad_pf (_ : Q) (srcs : list qn) : qn :=
  match srcs with
  | Some x :: _ => Some (azel_conv_q x)
  | _ => None
  end.

(* function ids of the arithmetic virtual sensors (regenerated: the functions registered for these templates) *)
Definition fid_mjd : Z := 0.
Definition fid_azel : Z := 1.
Definition arith_pf (fid : Z) (_ : nat) (t : Q) (srcs : list qn) : qn :=
  if Z.eqb fid fid_mjd then mjd_pf t srcs
  else if Z.eqb fid fid_azel then deg2rad_pf t srcs
  else None.
Definition arith_vf := vf_pw arith_pf.

(* which source sensor `_calc_azel` reads: name.endswith(azel_az_suffix) -> the azimuth sensor, else elevation
   (Generated.azel_sources: per format module the two real sensor names with {ant} for the antenna) *)
Definition azel_pick (name : string) (az_src el_src : string) : string :=
  if ends_with name azel_az_suffix then az_src else el_src.

(* scaling the VALUES of the nodes *)
Definition scale_nodes (c : Q) (l : list node) : list node := map (fun n => (fst n, c * snd n)) l.

(* ------------------------------------------------------------------ 3. source arrays as state *)
Definition read_name (o : op) : option string :=
  match o with OGet n _ _ _ => Some n | OItem n => Some n | _ => None end.

(* after a read that CREATED the virtual sensor n from the template v: when the function works in place, the array
   cached under its first source is the array stored under n *)
Definition after_virtual (ipv : bool) (c c1 : cache) (o : op) : cache :=
  if ipv then
    match read_name o with
    | Some n =>
        match r_lookup n (c_raw c), find (fun v => mem_string n (v_names v)) (c_virt c), r_lookup n (c_raw c1) with
        | None, Some v, Some (EVals l) =>
            match v_srcs v with
            | s :: _ => with_raw c1 (r_set s (EVals l) (c_raw c1))
            | [] => c1
            end
        | _, _, _ => c1
        end
    | None => c1
    end
  else c1.

Section Src.
Variable vf : Z -> nat -> list (list qn) -> list Q -> list qn.
Variable ipv : bool.

Definition step_v (c : cache) (o : op) : cache * res :=
  let '(c1, r) := step vf false c o in (after_virtual ipv c c1 o, r).

Fixpoint run_v (c : cache) (ops : list op) : cache * list res :=
  match ops with
  | [] => (c, [])
  | o :: t => let '(c1, r) := step_v c o in let '(c2, rs) := run_v c1 t in (c2, r :: rs)
  end.
End Src.

(* what the code does: in place iff the translator found an in-place write on a cached source *)
Definition virtual_ipv : bool := negb (Z.eqb virtual_inplace_writes 0).

(* ------------------------------------------------------------------ wire *)
Definition of_tres (r : tres) : sx :=
  match r with
  | TNum dt l => L [I 0%Z; I (of_dtype dt); L (map of_qn l)]
  | TCat None => L [I 1%Z]
  | TCat (Some d) => L [I 1%Z; of_dval d]
  | TErr => L [I 2%Z]
  end.
(* results of the arithmetic sensors have numerators beyond a native int (x * pi64 / 180): base 2^30 limbs, least
   significant first, after the sign *)
Fixpoint limbs (fuel : nat) (z : Z) : list sx :=
  match fuel with
  | O => []
  | S f => if Z.eqb z 0 then [] else I (z mod 1073741824)%Z :: limbs f (z / 1073741824)%Z
  end.
Definition of_Zbig (z : Z) : sx := L (I (Z.sgn z) :: limbs 16 (Z.abs z)).
Definition of_Qbig (q : Q) : sx := let r := Qred q in L [of_Zbig (Qnum r); of_Zbig (Zpos (Qden r))].
Definition of_qn_big (q : qn) : sx := match q with None => L [] | Some q => of_Qbig q end.
Definition of_res_big (r : res) : sx :=
  match r with RVals l => L [I 0%Z; L (map of_qn_big l)] | _ => of_res r end.

Definition of_entries (c : cache) : sx :=
  L (map (fun kv => L [of_string (fst kv);
                       match snd kv with
                       | ERaw g => L [I 0%Z; of_nat g]
                       | EVals l => L [I 1%Z; L (map of_qn_big l)]
                       | ECat => L [I 2%Z]
                       end]) (c_raw c)).

(* (1 getter (ts...) props)  -> (model, model with initial_value removed, number of usable samples,
                                 (spec values at the dumps: clean-up + interpolation written independently))
   (2 cache ops)             -> ((results...) (final entries: name, kind, values) final_store)   [the machine WITHOUT
                                 in-place writes: what the property demands, whatever virtual_ipv says]
                                 virtual sensors: fid 0 = mjd, fid 1 = deg2rad of the first source
   (3 c (nodes...) (xs...))  -> (interp of the scaled nodes, scaled interp of the nodes)   c = pi64 / 180 when c = () *)
Definition wire_128 (x : sx) : sx :=
  match x with
  | L [I 1%Z; g; ts; p] =>
      let g' := to_getter g in let tq := map to_Q (to_list ts) in let p' := to_props p in
      L [of_tres (extract_t g' tq p'); of_tres (extract_t g' tq (with_init p' None));
         of_nat (List.length (usable g' p'));
         L (map (fun t => of_qn (spec_numeric g' (offset_of p') t)) tq)]
  | L [I 2%Z; c; ops] =>
      let '(c', rs) := run_v arith_vf false (to_cache c) (map to_op (to_list ops)) in
      L [L (map of_res_big rs); of_entries c'; of_store (c_store c')]
  | L [I 3%Z; c; nodes; xs] =>
      let k := match c with L [] => pi64 / 180 | _ => to_Q c end in
      let nd := map (fun n => match n with L [a; b] => (to_Q a, to_Q b) | _ => (0, 0) end) (to_list nodes) in
      L [L (map (fun x => of_Q (interp_d (scale_nodes k nd) (to_Q x))) (to_list xs));
         L (map (fun x => of_Q (k * interp_d nd (to_Q x))) (to_list xs))]
  | _ => sx_err
  end.
