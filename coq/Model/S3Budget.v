(* C09: WHICH retry budget is in force at each request site.

   Every request of katdal's S3 transport goes through S3ChunkStore.request(method, url, ..., retries=None, ...):

       retries = self.retries if retries is None else _retry_object(retries <, keywords>)

   so the Retry object a request starts from is a function of two things: the store-level `retries` argument the user
   gave to S3ChunkStore(...) / katdal.open(...) (completed in __init__ by _retry_object(retries, status=..,
   status_forcelist=..)) and the per-call `retries=` keyword of the call site.  Nothing of this is hand-written per site:
   the keyword of EVERY call site (chunk GET, RDB GET, bucket listing, chunk PUT, bucket PUT, marker PUT, marker GET) is
   re-translated from the source at every run (Generated.s3_site_overrides), as are the keywords with which __init__
   and request() complete a number / pair into a Retry object (s3_default_status, s3_default_forcelist_is_glitches,
   s3_request_override_status, s3_request_override_forcelist_is_glitches).

   SPEC side: "the configured retry budget" of the property is the store-level one, `store_retries user`, for every
   request the store (or the data set opened through it) sends: chunk requests and RDB requests of the same store
   configuration obey the same rules. *)
From Coq Require Import ZArith List Bool String.
From KV Require Import Base.Sx Base.Str Gen.Generated Model.S3Retry.
Import ListNotations.
Open Scope Z_scope.

Inductive site := SChunk | SRdb | SListing | SPut | SBucket | SMarker | SComplete.
Definition all_sites : list site := [SChunk; SRdb; SListing; SPut; SBucket; SMarker; SComplete].
Definition site_name (s : site) : string :=
  match s with
  | SChunk => "chunk" | SRdb => "rdb" | SListing => "listing" | SPut => "put" | SBucket => "bucket"
  | SMarker => "marker" | SComplete => "complete"
  end.

(* _retry_object(retries, **defaults): a Retry object is kept as it is; a number n stands for (n, n); a pair (c, r)
   becomes Retry(connect=c, read=r, **defaults) - urllib3's own defaults for what `defaults` does not mention:
   total=10, status=None (no budget of its own), status_forcelist = () (NO status is retried) *)
Definition retry_object (a : retries_arg) (status : option Z) (glitches : bool) : config :=
  let mk c r := mkConfig (mkRetry (Some 10) (Some c) (Some r) status) (if glitches then s3_server_glitches else []) in
  match a with
  | RObj r fl => mkConfig r fl
  | RInt n => mk n n
  | RPair c r => mk c r
  end.

(* S3ChunkStore.__init__: self.retries.  `user` = the `retries` keyword of S3ChunkStore(...) / from_url / katdal.open
   (None: not given) *)
Definition store_retries (user : option retries_arg) : config :=
  retry_object (match user with Some a => a | None => RInt s3_default_retries end)
               (Some s3_default_status) s3_default_forcelist_is_glitches.

(* S3ChunkStore.request: the Retry object a request starts from *)
Definition request_retries (store : config) (override : option retries_arg) : config :=
  match override with
  | None => store
  | Some a => retry_object a s3_request_override_status s3_request_override_forcelist_is_glitches
  end.

(* the `retries=` keyword of a call site, as translated: (0, _) none; (1, ns) a literal; (2, ns) kwargs.get('retries', lit) *)
Fixpoint assoc_site (k : string) (l : list (string * (Z * list Z))) : Z * list Z :=
  match l with
  | [] => (0, [])
  | (k', v) :: t => if String.eqb k k' then v else assoc_site k t
  end.
Definition lit_arg (ns : list Z) : retries_arg :=
  match ns with [n] => RInt n | [c; r] => RPair c r | _ => RInt 0 end.
Definition call_override (user : option retries_arg) (s : site) : option retries_arg :=
  let '(tag, ns) := assoc_site (site_name s) s3_site_overrides in
  if tag =? 1 then Some (lit_arg ns)
  else if tag =? 2 then Some (match user with Some a => a | None => lit_arg ns end)
  else None.

(* THE BUDGET IN FORCE at a request site of a store / data set configured with `user` *)
Definition site_config (user : option retries_arg) (s : site) : config :=
  request_retries (store_retries user) (call_override user s).

(* ---------- the request sites with their own budgets ---------- *)
Definition get_chunk_at (cfgc cfgl : config) (segs : list nat) (len blen : nat) (verified : bool) (b : bucket)
           (fs fsb : list outcome) : chunk_run :=
  let '(res, n) := request cfgc (PChunk segs) len [] fs in
  match res with
  | Err NotFound =>
      if verified then mkRun res n O true
      else match verify_bucket cfgl blen b fsb with
           | (Some e, m, v) => mkRun (Err e) n m v
           | (None, m, v) => mkRun res n m v
           end
  | _ => mkRun res n O verified
  end.
Definition mark_complete_at (cfgb cfgm : config) (fs : list outcome) : result * nat * nat :=
  let '(rb, nb) := request cfgb PListing O s3_create_bucket_ignored fs in
  match rb with
  | Ok _ => let '(r, n) := request cfgm PListing O [] (skipn nb fs) in (r, nb, n)
  | Err e => (Err e, nb, O)
  end.

(* what a user of the store / data set configured with `user` gets *)
Definition user_get_chunk (user : option retries_arg) :=
  get_chunk_at (site_config user SChunk) (site_config user SListing).
Definition user_rdb_fetch (user : option retries_arg) := rdb_fetch (site_config user SRdb).
Definition user_put_chunk (user : option retries_arg) := put_chunk (site_config user SPut).
Definition user_is_complete (user : option retries_arg) := is_complete (site_config user SComplete).
Definition user_mark_complete (user : option retries_arg) :=
  mark_complete_at (site_config user SBucket) (site_config user SMarker).

(* domain of the `retries` argument: non-negative numbers; a Retry object with non-negative / unlimited counters and a
   5xx forcelist *)
Definition wf_arg (a : retries_arg) : bool :=
  match a with
  | RInt n => 0 <=? n
  | RPair c r => (0 <=? c) && (0 <=? r)
  | RObj r fl => wf_retry r && wf_forcelist fl
  end.
Definition wf_user (user : option retries_arg) : bool := match user with Some a => wf_arg a | None => true end.

(* =====================================================================================
   wire
   ===================================================================================== *)
(* () not given | (n) | (c r) | (total connect read status forcelist) *)
Definition to_user (x : sx) : option retries_arg :=
  match x with
  | L [t; c; r; s; fl] => Some (RObj (mkRetry (to_optZ t) (to_optZ c) (to_optZ r) (to_optZ s)) (to_Zs fl))
  | L [I c; I r] => Some (RPair c r)
  | L [I n] => Some (RInt n)
  | _ => None
  end.
Definition of_config (c : config) : sx :=
  L [of_optZ (r_total (c_retry c)); of_optZ (r_connect (c_retry c)); of_optZ (r_read (c_retry c));
     of_optZ (r_status (c_retry c)); of_Zs (c_forcelist c)].

(* the cases of wire_9, MODEL half with the budget of each request site, SPEC half with the store-level budget:
   (1 user segs blen verified bucket fs fsb) -> (model_result obj_requests bucket_requests verified' spec_result)
   (2 user len fs)   -> (model_result requests spec_result spec_requests)       RDB
   (3 user)          -> (store budget, budget per site in the order of all_sites)
   (4 user len fs)   -> put_chunk    (5 user len fs) -> is_complete    (6 user fs) -> mark_complete  (as wire_9) *)
Definition wire_95 (x : sx) : sx :=
  match x with
  | L [I 1; u; segs; I blen; v; b; fs; fsb] =>
      let user := to_user u in
      let cfg := store_retries user in
      let segs := to_nats segs in
      let len := fold_right Nat.add O segs in
      let g := user_get_chunk user segs len (Z.to_nat blen) (to_bool v) (to_bucket b) (to_outcomes fs) (to_outcomes fsb) in
      L [of_result (g_result g); of_nat (g_obj_requests g); of_nat (g_bucket_requests g); of_bool (g_verified g);
         of_result (spec_get_chunk cfg len (Z.to_nat blen) (to_bool v) (to_bucket b) (to_outcomes fs) (to_outcomes fsb))]
  | L [I 2; u; I len; fs] =>
      let user := to_user u in
      let '(res, n) := user_rdb_fetch user (Z.to_nat len) (to_outcomes fs) in
      let '(sres, sn) := spec_request (store_retries user) (Z.to_nat len) (to_outcomes fs) in
      L [match res with RdbOk d => L [I 0; I (Z.of_nat d)] | RdbNotFound => L [I 1; I 0] | RdbRaw => L [I 9; I 0] end;
         of_nat n; of_result sres; of_nat sn]
  | L [I 3; u] =>
      let user := to_user u in
      L (of_config (store_retries user) :: map (fun s => of_config (site_config user s)) all_sites)
  | L [I 4; u; I len; fs] =>
      let user := to_user u in
      let '(res, n) := user_put_chunk user (Z.to_nat len) (to_outcomes fs) in
      let '(sres, sn) := spec_request (store_retries user) (Z.to_nat len) (to_outcomes fs) in
      L [of_result res; of_nat n; of_result sres; of_nat sn]
  | L [I 5; u; I len; fs] =>
      let user := to_user u in
      let cfg := store_retries user in
      let fs := to_outcomes fs in
      let len := Z.to_nat len in
      let oc (c : complete_res) := match c with CTrue => L [I 0; I 0] | CFalse => L [I 1; I 0] | CRaise e => L [I 2; I (of_err e)] end in
      let '(res, n) := user_is_complete user len fs in
      L [oc res; of_nat n; oc (spec_is_complete cfg len fs); of_nat (spec_requests (c_forcelist cfg) len (c_retry cfg) fs)]
  | L [I 6; u; fs] =>
      let user := to_user u in
      let '(res, nb, n) := user_mark_complete user (to_outcomes fs) in
      let '(sres, snb, sn) := spec_mark_complete (store_retries user) (to_outcomes fs) in
      L [of_result res; of_nat nb; of_nat n; of_result sres; of_nat snb; of_nat sn]
  | _ => sx_err
  end.
