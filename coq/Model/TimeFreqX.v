(* C17 (extension): the paths from the public API down to the modelled core.
   MODEL (all katdal-determined pieces come from Gen/Generated.v, see harness/vh/items/c17.py):
     * the time axis for ANY sequence of timestamps before preselection (synthesised from telstate or handed to
       TelstateDataSource(timestamps=...)): the same interpreted statement lists gen_ds_prog / gen_v4_time_prog;
     * open_v4: TelstateDataSource(preselect=) + VisibilityDataV4(preselect=) end to end: validation (source order),
       normalisation of the two ranges, the dump range applied to the timestamps, the channel range handed to
       SpectralWindow.subrange (IndexError when empty), the index handed to the chunk store, and the channel-count
       fallback (generated test and centre) that replaces the window when metadata and data disagree;
     * SpectralWindow objects with their names: constructor defaults (generated), product / band carried through
       subrange / rechannelise, the v4 product attribute and band map (generated), histories of operations. *)
From Coq Require Import ZArith QArith List Bool String.
From KV Require Import Base.Sx Base.Str Gen.Generated Model.TimeFreq Model.TimeFreqPre.
Import ListNotations.
Open Scope Q_scope.

(* ---------------- time axis over an arbitrary timestamp sequence g ---------------- *)
Definition ds_step_g (g : Z -> Q) (a : Z) (st : dstate) (op : Z) : dstate :=
  match op with
  | 2%Z => mkD (d_base st) (Some (g (d_base st))) (d_src_base st) (d_src_cap st)
  | 3%Z => mkD (d_base st + a)%Z (d_capvar st) (d_src_base st) (d_src_cap st)
  | 4%Z => mkD (d_base st) (d_capvar st) (Some (d_base st)) (d_src_cap st)
  | 5%Z => mkD (d_base st) (d_capvar st) (d_src_base st) (d_capvar st)
  | _ => st
  end.
Definition run_ds_g (g : Z -> Q) (a : Z) : dstate := fold_left (ds_step_g g a) gen_ds_prog (mkD 0 None None None).
Definition src_base_g (g : Z -> Q) (a : Z) : Z := match d_src_base (run_ds_g g a) with Some b => b | None => 0%Z end.
Definition run_v4_g (tm : timing) (g : Z -> Q) (a n : Z) : vstate :=
  let b := src_base_g g a in
  fold_left (v_step tm (d_src_cap (run_ds_g g a)) (g b) (g (b + n - 1)%Z))
            gen_v4_time_prog (mkV 0 (t_off tm) None None None).
Definition model_timestamp_g (tm : timing) (g : Z -> Q) (a i : Z) : Q :=
  g (src_base_g g a + i)%Z + v_shift (run_v4_g tm g a 1).
Definition model_start_g (tm : timing) (g : Z -> Q) (a n : Z) : Q := optQ (v_start (run_v4_g tm g a n)).
Definition model_end_g (tm : timing) (g : Z -> Q) (a n : Z) : Q := optQ (v_end (run_v4_g tm g a n)).
Definition model_offset_g (tm : timing) (g : Z -> Q) (a : Z) : Q := v_off (run_v4_g tm g a 1).

(* SPEC: the capture started at g 0 (+ time_offset); before the documented fix date of its correlator -> one CBF dump *)
Definition spec_fix_g (tm : timing) (g : Z -> Q) : Q :=
  if Qltb (g 0%Z + t_off tm) (inject_Z (doc_fix_date (t_cmc2 tm) (t_cbf4k tm)))
  then match t_cbf tm with Some c => c | None => 0 end else 0.

(* katdal.open / VisibilityDataV4 without a time_offset argument *)
Definition q_default_time_offset : Q := @gen_v4_default_time_offset Q Qplus Qminus Qmult Qdiv inject_Z.
Definition q_open_default_time_offset : Q := @gen_open_default_time_offset Q Qplus Qminus Qmult Qdiv inject_Z.

(* ---------------- the whole open ---------------- *)
Record v4src := mkSrc {
  x_tm : timing;          (* sync_time, first_timestamp, int_time, time_offset argument, CBF attributes *)
  x_T : Z;                (* dumps = shape[0] of correlator_data after _align_chunk_info *)
  x_N : Z;                (* n_chans attribute *)
  x_centre : Q; x_bw : Q; (* center_freq, bandwidth attributes *)
  x_F : option Z }.       (* channels of the stored arrays; None = opened without a chunk store *)
Record v4ds := mkDs {
  o_a : Z; o_n : Z;       (* first dump kept, number of dumps *)
  o_spw : spw; o_fallback : bool;
  o_index : list (option (Z * Z)) }.     (* preselect_index of the chunk store (normalised) *)
Inductive opened_v4 := OErr (code : Z) | ODs (d : v4ds).

Definition q_fallback_centre : Q := @gen_v4_fallback_centre Q Qplus Qminus Qmult Qdiv inject_Z.
(* source.data.shape[1] *)
Definition data_chans (F : Z) (p : presel) : Z := take_len (axis_range F p "channels").

(* error codes: 1 / 2 IndexError of the validation | 5 IndexError: no dump left (timestamps[0]) | 6 IndexError of
   SpectralWindow.subrange (no channel left) *)
Definition open_v4 (s : v4src) (po : option presel) : opened_v4 :=
  let v := ds_validate po in
  if negb (v =? 0)%Z then OErr v else
  let p := the_dict po in
  let dr := axis_range (x_T s) p "dumps" in
  if (take_len dr <=? 0)%Z then OErr 5 else
  let w0 := v4_spw (x_centre s) (x_bw s) (x_N s) in
  let w1 := match plookup "channels" p with
            | Some v => subrange w0 (fst (py_indices (x_N s) v)) (snd (py_indices (x_N s) v))
            | None => Some w0
            end in
  match w1 with
  | None => OErr 6
  | Some w =>
      match x_F s with
      | Some F =>
          let fb := gen_v4_fallback_test (s_n w) (data_chans F p) in
          ODs (mkDs (fst dr) (take_len dr)
                    (if fb then spw_init (q_fallback_centre, q_v4_channel_width (x_bw s) (x_N s), data_chans F p,
                                          gen_v4_sideband, None) else w)
                    fb (pre_index [x_T s; F] p))
      | None => ODs (mkDs (fst dr) (take_len dr) w false [])
      end
  end.

(* ---------------- SpectralWindow objects with their names ---------------- *)
Record spw_call := mkCall {
  k_centre : Q; k_cw : Q; k_n : Z;
  k_product : option string; k_sideband : option Z; k_band : option string; k_bandwidth : option Q }.
Record spw_obj := mkObj { j_w : spw; j_product : string; j_band : string }.
Definition spw_new (k : spw_call) : spw_obj :=
  mkObj (spw_init (k_centre k, k_cw k, k_n k,
                   match k_sideband k with Some s => s | None => gen_spw_default_sideband end, k_bandwidth k))
        (match k_product k with Some s => s | None => gen_spw_product_of_none end)
        (match k_band k with Some b => b | None => gen_spw_default_band end).
(* product and band are passed on unchanged (anything else is refused by the translator) *)
Definition obj_subrange (o : spw_obj) (f l : Z) : option spw_obj :=
  option_map (fun w => mkObj w (j_product o) (j_band o)) (subrange (j_w o) f l).
Definition obj_rechannelise (o : spw_obj) (m : Z) : spw_obj := mkObj (rechannelise (j_w o) m) (j_product o) (j_band o).

(* a history of operations on a window: stops at the first IndexError *)
Inductive spw_op := OpSub (f l : Z) | OpRechan (m : Z).
Fixpoint obj_run (o : spw_obj) (ops : list spw_op) : list (option spw_obj) :=
  match ops with
  | [] => []
  | OpSub f l :: r => match obj_subrange o f l with
                      | Some o' => Some o' :: obj_run o' r
                      | None => [None]
                      end
  | OpRechan m :: r => let o' := obj_rechannelise o m in Some o' :: obj_run o' r
  end.

(* VisibilityDataV4: product = attrs.get('sub_product', ''), band = band_map[attrs['sub_band']] *)
Fixpoint assoc_string (k : string) (l : list (string * string)) : option string :=
  match l with [] => None | (k', v) :: r => if String.eqb k k' then Some v else assoc_string k r end.
Definition v4_obj (centre bw : Q) (n : Z) (sub_product : option string) (sub_band : string) : option spw_obj :=
  match assoc_string sub_band gen_v4_band_map with
  | Some b => Some (mkObj (v4_spw centre bw n)
                          (match sub_product with Some s => s | None => gen_v4_product_default end) b)
  | None => None       (* KeyError *)
  end.

(* equality as SpectralWindow.__eq__ sees it (the _description tuple), over Q *)
Definition spw_eq (u w : spw) : Prop :=
  s_centre u == s_centre w /\ s_bw u == s_bw w /\ s_n u = s_n w /\ s_side u = s_side w.

(* ---------------- wire ---------------- *)
Definition to_src (x : sx) : v4src :=
  match x with
  | L [tm; I t; I n; c; b; f] => mkSrc (to_timing tm) t n (to_Q c) (to_Q b) (to_optZ f)
  | _ => mkSrc (to_timing (L [])) 0 0 0 0 None
  end.
Definition to_ostring (x : sx) : option string := match x with L [s] => Some (to_string s) | _ => None end.
Definition to_call (x : sx) : spw_call :=
  match x with
  | L [c; cw; I n; pr; sd; bd; bw] => mkCall (to_Q c) (to_Q cw) n (to_ostring pr) (to_optZ sd) (to_ostring bd) (to_optQ bw)
  | _ => mkCall 0 1 1 None None None None
  end.
Definition to_op (x : sx) : spw_op :=
  match x with L [I 0; I f; I l] => OpSub f l | L [I 1; I m] => OpRechan m | _ => OpRechan 1 end.
Definition of_obj (o : spw_obj) : sx :=
  L [of_spw (j_w o); of_string (j_product o); of_string (j_band o); L (map of_Q (freqs_full (j_w o)))].
Definition list_fun (l : list Q) (k : Z) : Q := nth (Z.to_nat k) l 0.

(* (1 src preselect)        -> (code) | (a n spw fallback index timestamps start end time_offset)
   (2 call ops)             -> (object, results of the history (() at the IndexError))
   (3 timing stamps a n)    -> (timestamps, start, end, time_offset, spec timestamps) for GIVEN timestamps
   (4 centre bw N product band) -> () | (object)           the window VisibilityDataV4 builds, with its names *)
Definition wire_173 (x : sx) : sx :=
  match x with
  | L [I 1; src; p] =>
      let s := to_src src in
      match open_v4 s (to_opresel p) with
      | OErr c => L [I c]
      | ODs d =>
          let ks := TimeFreq.zrange 0 (Z.to_nat (o_n d)) in
          L [I (o_a d); I (o_n d); of_spw (o_spw d); of_bool (o_fallback d); L (map of_win (o_index d));
             L (map (fun i => of_Q (model_timestamp (x_tm s) (o_a d) i)) ks);
             of_Q (model_start_time (x_tm s) (o_a d) (o_n d)); of_Q (model_end_time (x_tm s) (o_a d) (o_n d));
             of_Q (model_time_offset (x_tm s) (o_a d));
             L (map of_Q (freqs_full (o_spw d)))]
      end
  | L [I 2; call; ops] =>
      let o := spw_new (to_call call) in
      L [of_obj o; L (map (fun r => match r with Some o' => of_obj o' | None => L [] end)
                          (obj_run o (map to_op (to_list ops))))]
  | L [I 3; tm; stamps; I a; I n] =>
      let tm := to_timing tm in
      let g := list_fun (map to_Q (to_list stamps)) in
      let ks := TimeFreq.zrange 0 (Z.to_nat n) in
      L [L (map (fun i => of_Q (model_timestamp_g tm g a i)) ks);
         of_Q (model_start_g tm g a n); of_Q (model_end_g tm g a n); of_Q (model_offset_g tm g a);
         L (map (fun i => of_Q (g (a + i)%Z + t_off tm - spec_fix_g tm g)) ks)]
  | L [I 4; c; b; I n; pr; bd] =>
      match v4_obj (to_Q c) (to_Q b) n (to_ostring pr) (to_string bd) with
      | Some o => L [of_obj o]
      | None => L []
      end
  | _ => sx_err
  end.
