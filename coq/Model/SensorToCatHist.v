(* C10: (A) the dump-edge convention of the public arguments (dump MID times + dump period -> the documented intervals)
   and (B) histories of conversions over ONE getter: SimpleSensorGetter.get hands out the getter's own samples, an alias
   (SensorCache.add_aliases) shares the getter, and every conversion (SensorCache.get of the name, of an alias, a second
   cache over the same getters, a direct call of sensor_to_categorical on getter.get()) reads them again.  The state that
   outlives a conversion is therefore the getter's raw sample list; `conv_raw` is what ONE conversion leaves there.
   Whether the path writes into the objects it was handed is decided from the REGENERATED store lists
   (c10_s2c_stores, c10_extract_stores, c10_clean_stores of Gen/Generated.v): a store through any name that can alias the
   samples makes the machine write the shifted times / transformed values back (what an in-place `+=` or
   `value.unwrapped = ...` does).  Definitions only. *)
From Coq Require Import ZArith List Bool String.
From KV Require Import Base.Sx Base.Str Gen.Generated Model.SensorToCat Model.SensorToCatSrc Model.SensorToCatPath.
Import ListNotations.
Open Scope Z_scope.

(* ---------- (A) dump k of the rule, from mid times and period ---------- *)
(* the intervals (lo, hi] the rule `spec_per_dump` gives to the dumps: the first one starts one period before its end *)
Definition dump_intervals (mids : list Z) (P : Z) : list (Z * Z) :=
  match dump_ends mids P with
  | [] => []
  | e0 :: er => combine ((e0 - P) :: e0 :: er) (e0 :: er)
  end.
(* a regular grid: consecutive mid times one period apart *)
Fixpoint regular_grid (mids : list Z) (P : Z) : Prop :=
  match mids with
  | [] => True
  | m :: r => match r with [] => True | m' :: _ => m' = m + P /\ regular_grid r P end
  end.
Definition in_dump (lohi : Z * Z) (t : Z) : bool := (fst lohi <? t) && (t <=? snd lohi).

(* ---------- (B) what a conversion writes ---------- *)
Definition any_of (names stores : list string) : bool := existsb (fun n => mem_string n stores) names.
(* names of sensor_to_categorical / its nested transform that are (or can alias) the caller's arrays and value objects *)
Definition s2c_writes_raw : bool :=
  any_of ["sensor_timestamps"; "sensor_values"; "value"; "y"; "dump_midtimes"; "greedy_values"; "initial_value"; "?"]%string
         c10_s2c_stores.
Definition extract_writes_raw : bool :=
  any_of ["sensor_data"; "sensor_getter"; "timestamps"; "?"]%string c10_extract_stores
  || any_of ["sensor"; "x"; "y"; "z"; "?"]%string c10_clean_stores.

(* the getter's samples after ONE conversion with time offset `off` and transform `tr` *)
Definition conv_raw_with (wt wv : bool) (raw : list rsample) (off : option Z) (tr : option (list (Z * Z))) : list rsample :=
  let o := match off with Some o => o | None => c10_default_time_offset end in
  let raw1 := if wt then shift_r o raw else raw in
  if wv then map (fun s => (r_t s, app_tr tr (r_v s), r_st s)) raw1 else raw1.
Definition conv_raw := conv_raw_with extract_writes_raw s2c_writes_raw.

(* properties of one sensor NAME (original or alias): SensorCache.props merged by _get_props *)
Record cprops := { p_off : option Z; p_tr : option (list (Z * Z)); p_init : option Z; p_greedy : list Z;
                   p_ar : option bool }.

Section Hist.
  Variables (has_status : bool) (dflt : Z) (mids : list Z) (P : Z).
  Definition convert (raw : list rsample) (p : cprops) : res (list Z) :=
    extract_per_dump_src raw has_status (p_off p) dflt mids P (p_tr p) (p_init p) (p_greedy p) (p_ar p).
  (* one conversion: result + the samples it leaves behind *)
  Definition conv_step_with (wt wv : bool) (raw : list rsample) (p : cprops) : list rsample * res (list Z) :=
    (conv_raw_with wt wv raw (p_off p) (p_tr p), convert raw p).
  Fixpoint run_hist_with (wt wv : bool) (raw : list rsample) (ops : list cprops) : list rsample * list (res (list Z)) :=
    match ops with
    | [] => (raw, [])
    | p :: r => let '(raw1, o) := conv_step_with wt wv raw p in
                let '(raw2, os) := run_hist_with wt wv raw1 r in (raw2, o :: os)
    end.
  Definition run_hist := run_hist_with extract_writes_raw s2c_writes_raw.

  (* SensorCache.get with its cache: _raw[name] is replaced by the extracted data, a later get of the SAME name returns
     it without converting again; another name (alias) converts the shared samples.  names = indices into `pt` *)
  Definition cached (c : list (nat * res (list Z))) (n : nat) : option (res (list Z)) :=
    match find (fun e => Nat.eqb (fst e) n) c with Some e => Some (snd e) | None => None end.
  Fixpoint run_cache (pt : nat -> cprops) (raw : list rsample) (c : list (nat * res (list Z))) (gets : list nat)
    : list rsample * list (res (list Z)) :=
    match gets with
    | [] => (raw, [])
    | n :: r => match cached c n with
                | Some o => let '(raw2, os) := run_cache pt raw c r in (raw2, o :: os)
                | None => let '(raw1, o) := conv_step_with extract_writes_raw s2c_writes_raw raw (pt n) in
                          let '(raw2, os) := run_cache pt raw1 ((n, o) :: c) r in (raw2, o :: os)
                end
    end.
End Hist.

(* ---------- wire ---------- *)
Definition to_cprops (x : sx) : cprops :=
  match x with
  | L [off; tr; init; greedy; ar] =>
      {| p_off := to_optZ off; p_tr := to_tr tr; p_init := to_optZ init; p_greedy := to_Zs greedy; p_ar := to_optbool ar |}
  | _ => {| p_off := None; p_tr := None; p_init := None; p_greedy := []; p_ar := None |}
  end.
Definition of_rsamples (l : list rsample) : sx := L (map (fun s => L [I (r_t s); I (r_v s)]) l).
Definition of_results (l : list (res (list Z))) : sx := L (map of_res_list l).

(* (raw has_status dflt mids P (props of name 0, 1, ...) (names got in order)) ->
   (samples after the history, results of the gets, results every get must have = conversion of the ORIGINAL samples,
    intervals of the dumps) *)
Definition wire_106 (x : sx) : sx :=
  match x with
  | L [raw; hs; I dflt; mids; I P; pts; gets] =>
      let raw := map to_rsample (to_list raw) in let hs := to_bool hs in let mids := to_Zs mids in
      let pl := map to_cprops (to_list pts) in
      let pt := fun n => nth n pl (to_cprops (L [])) in
      let gets := map Z.to_nat (to_Zs gets) in
      let '(raw', os) := run_cache hs dflt mids P pt raw [] gets in
      L [of_rsamples raw'; of_results os; of_results (map (fun n => convert hs dflt mids P raw (pt n)) gets);
         L (map (fun p => L [I (fst p); I (snd p)]) (dump_intervals mids P))]
  | _ => sx_err
  end.
