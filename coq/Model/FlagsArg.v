(* C16 (argument parsing, the marking loop, flag tables of the file): the path from the ARGUMENT of
   select(flags=...) to the mask, with every constant of that path taken from the source.

   Model of
   * dataset.py _selection_to_list(names, **groups) as regenerated: the separator of the split branch
     (sel_to_list_sep) and the strip method applied to EVERY field (sel_to_list_strip: "strip" | "lstrip" |
     "rstrip" | "none"), the keyword under which a setter hands in its known names (flag_setter_group_key);
   * the marking loop of the three `_flags_keep` setters as regenerated (flag_setter_loop): the ValueError of an
     unknown name handled PER NAME (the loop goes on) or around the WHOLE loop (the first unknown name ends it and
     every name after it is dropped);
   * H5DataV3 / H5DataV2 opened on a file that carries its OWN flag table (`flags_description`): the known names
     are the first column of that table, in the order of the file; the setter and the getter insist on 8 rows
     (assert); the table is decoded to str or not (h5_flag_table_decoded: h5py delivers bytes, and a bytes name
     never equals the str a user asks for - only the group 'all', which hands the table's own entries back,
     still finds them). *)
From Coq Require Import ZArith List Bool String Ascii.
From KV Require Import Base.Sx Base.Str Gen.Generated Model.Flags Model.FlagsV4 Model.FlagsSel.
Import ListNotations.
Open Scope Z_scope.
Open Scope string_scope.

(* ---------- _selection_to_list with the constants of the source ---------- *)
Definition rstrip (s : string) : string := srev (lstrip (srev s)).
Definition strip_by (kind s : string) : string :=
  if String.eqb kind "strip" then strip s
  else if String.eqb kind "lstrip" then lstrip s
  else if String.eqb kind "rstrip" then rstrip s
  else s.

Fixpoint split_on_aux (c : ascii) (s cur : string) : list string :=
  match s with
  | EmptyString => [srev cur]
  | String a t => if Ascii.eqb a c then srev cur :: split_on_aux c t EmptyString
                  else split_on_aux c t (String a cur)
  end.
Definition split_on (c : ascii) (s : string) : list string := split_on_aux c s EmptyString.

Definition sep_char : ascii := match sel_to_list_sep with String c EmptyString => c | _ => ","%char end.
Definition group_key (f : fmt) : string := lookup (fmt_key f) flag_setter_group_key "".

Definition selection_to_list_src (key : string) (a : selarg) (all : list string) : list string :=
  match a with
  | SelStr s =>
      if String.eqb s "" then []
      else if String.eqb s key then all
      else map (strip_by sel_to_list_strip) (split_on sep_char s)
  | SelList l => l
  end.

(* ---------- the marking loop ---------- *)
(* try: for name in names: selection[known.index(name)] = 1  except ValueError: warn   -- ends at the first unknown *)
Fixpoint mark_until (known names : list string) (sel : list bool) : list bool :=
  match names with
  | [] => sel
  | n :: t => match index_of n known with Some i => mark_until known t (set_nth sel i) | None => sel end
  end.
Definition selection_bits_shape (shape : string) (known names : list string) : list bool :=
  if String.eqb shape "per_name" then selection_bits known names
  else mark_until known names (repeat false 8).
Definition loop_shape (f : fmt) : string := lookup (fmt_key f) flag_setter_loop "".

(* the setter with everything read from the source *)
Definition mk_mask_shape (shape : string) (known : list string) (f : fmt) (names : list string) : Z :=
  let bits := selection_bits_shape shape known names in
  packbits (if setter_flip f then rev bits else bits).
Definition mk_mask_src (known : list string) (f : fmt) (a : selarg) : Z :=
  mk_mask_shape (loop_shape f) known f (selection_to_list_src (group_key f) a known).
(* the names the setter warns about: per name all unknown ones, around the whole loop only the first *)
Definition warned_src (known : list string) (f : fmt) (a : selarg) : list string :=
  let u := filter (fun n => negb (mem_string n known)) (selection_to_list_src (group_key f) a known) in
  if String.eqb (loop_shape f) "per_name" then u else firstn 1 u.

(* ---------- a file with its own flag table ---------- *)
Definition table_decoded (f : fmt) : bool := lookup (fmt_key f) h5_flag_table_decoded true.   (* v4: no table *)
(* None = AssertionError (the data set cannot be opened / selected): the table does not have 8 rows *)
Definition file_mask (f : fmt) (table : list string) (a : selarg) : option Z :=
  if negb (Nat.eqb (List.length table) 8) then None
  else Some (if table_decoded f then mk_mask_src table f a
             else match a with
                  | SelStr s => if String.eqb s (group_key f) then mk_mask_src table f a else 0
                  | SelList _ => 0
                  end).
(* number of "is not a legitimate flag type" warnings; an undecoded table knows none of the requested names *)
Definition shape_count (f : fmt) (n : nat) : nat :=
  if String.eqb (loop_shape f) "per_name" then n else Nat.min 1 n.
Definition file_warned (f : fmt) (table : list string) (a : selarg) : nat :=
  if table_decoded f then List.length (warned_src table f a)
  else match a with
       | SelStr s => if String.eqb s (group_key f) then 0%nat
                     else shape_count f (List.length (selection_to_list_src (group_key f) a table))
       | SelList l => shape_count f (List.length l)
       end.

(* one data set on that file under a history of select() calls: the faithful model of Model/FlagsSel.v with the
   file's names as `known` *)
Definition file_run (f : fmt) (table : list string) (h : list kwpair) : pds :=
  pds_run cur_plumbing table (pds_init table f) h.

(* ---------- SPEC ---------- *)
(* bit position of the i-th name of the table in the format's order *)
Definition bitpos (f : fmt) (i : nat) : Z := match f with FV2 => 7 - Z.of_nat i | _ => Z.of_nat i end.
(* exactly the bits of the wanted names of the table *)
Definition table_mask (f : fmt) (table wanted : list string) : Z :=
  fold_right Z.add 0 (map (fun i => if mem_string (nth i table "") wanted then 2 ^ bitpos f i else 0) (seq 0 8)).
(* the documented reading of an argument: '' / [] nothing, 'all' everything, a comma-separated string its fields
   without surrounding white space, a list its elements *)
Definition table_wanted (table : list string) (a : selarg) : list string := selection_to_list a table.

(* a string selection spelt with white space: fields (before, name, after) joined by commas *)
Definition field := (string * string * string)%type.
Definition field_text (x : field) : string := match x with (a, n, b) => a ++ n ++ b end.
Definition field_name (x : field) : string := match x with (_, n, _) => n end.
Fixpoint join_comma (l : list string) : string :=
  match l with [] => "" | [x] => x | x :: t => x ++ "," ++ join_comma t end.
Fixpoint all_space (s : string) : bool :=
  match s with EmptyString => true | String a t => is_space a && all_space t end.
Fixpoint no_comma (s : string) : bool :=
  match s with EmptyString => true | String a t => negb (Ascii.eqb a ","%char) && no_comma t end.
Definition first_ok (s : string) : bool := match s with String a _ => negb (is_space a) | EmptyString => true end.
(* a name as a user means it: no comma inside, no white space at either end *)
Definition clean_name (n : string) : bool := no_comma n && first_ok n && first_ok (srev n).
Definition field_ok (x : field) : bool :=
  match x with (a, n, b) => all_space a && no_comma a && clean_name n && all_space b && no_comma b end.

(* ---------- wire ---------- *)
Definition of_strings (l : list string) : sx := L (map of_string l).
(* (1 fmt table selarg)  -> (mask_or_-1 spec_mask n_warnings (names the getter returns for that mask))
   (2 fmt table hist)    -> ((mask spec_mask) after every prefix of hist, the empty one first)
   (3 shape fmt table names) -> (mask under the given loop shape)            -- variants, for the examples *)
Definition wire_164 (x : sx) : sx :=
  match x with
  | L [I 1; f; t; a] =>
      let f := to_fmt f in let t := to_strings t in let a := to_selarg a in
      match file_mask f t a with
      | None => L [I (-1); I (table_mask f t (table_wanted t a)); I 0; L []]
      | Some m => L [I m; I (table_mask f t (table_wanted t a)); I (Z.of_nat (file_warned f t a));
                     of_strings (keep_names t f m)]
      end
  | L [I 2; f; t; L hist] =>
      let f := to_fmt f in let t := to_strings t in
      let h := map to_kwpair hist in
      L (map (fun pre => L [I (p_mask (file_run f t pre));
                            I (table_mask f t (table_wanted t (last_sel (map fst pre) (SelStr "all"))))])
             (prefixes h))
  | L [I 3; sh; f; t; n] =>
      L [I (mk_mask_shape (to_string sh) (to_strings t) (to_fmt f) (to_strings n))]
  | _ => sx_err
  end.
