(* C01: data sets with SEVERAL spectral windows / subarrays (an MVF v2 file whose RFE centre frequency is retuned during
   the observation: one window per centre frequency, Observation/spw_index says which one each dump was recorded with;
   several subarrays: Observation/subarray_index).  Only one window and one subarray are active at a time; freqs /
   channels / corr_products / ants describe THOSE, so every selected dump must have been recorded with them.

   On top of
     * Model/SelectX.v (C02's model of DataSet.select with spw= / subarray=, imported UNCHANGED): whenever the time
       dimension starts afresh the dump mask restarts from `spw_index == spw & subarray_index == subarray`
       (Generated.sel_time_base, re-translated from dataset.py at every run), whatever made it start afresh -- a change
       of window / subarray, a new time criterion in the default reset='auto', an explicit reset='T..', the bare
       select();
     * Model/DataSet.v: the format glue (acquire / index / conversions / timestamps) applied to the VIEW of the data set
       under the active window and subarray ([cfg_at]): the stored arrays have one time axis for all windows.

   State machine: wop := WSelect xkwargs | WAcquire kind | WIndex id ix2 | WObserve over (SelectX.xst, indexers); a
   select() call always leaves a state behind (also when it raises part-way, as in SelectX). *)
From Coq Require Import ZArith QArith List Bool String.
From KV Require Import Base.Sx Base.Str Base.SelSlice Base.PySlice Base.AxisIndex Base.NdArray Gen.Generated Model.Flags
  Model.DataSet.
From KV Require Model.Select Model.SelectX Model.TimeFreq Model.LazyIdx.
Import ListNotations.
Open Scope Z_scope.

(* ------------------------------------------------------------------------------------------------ *)
(* Static description                                                                                *)

Record wcfg := {
  w_cfg : cfg;                  (* format, duplicate final dump, sideband, timestamps ... ([c_obs] of it is not used) *)
  w_xo : SelectX.xobs           (* dumps (+ window / subarray each was recorded with), windows, subarrays, vocabulary *)
}.

Definition dflt_w : SelectX.spwin := {| SelectX.w_freqs := []; SelectX.w_halfw := 0 |}.
Definition dflt_sa : SelectX.subarr := {| SelectX.sa_ants := []; SelectX.sa_cps := [] |}.
Definition win_of (xo : SelectX.xobs) (spw : Z) : SelectX.spwin := nth (Z.to_nat spw) (SelectX.x_spws xo) dflt_w.
Definition sub_of (xo : SelectX.xobs) (sub : Z) : SelectX.subarr := nth (Z.to_nat sub) (SelectX.x_subs xo) dflt_sa.

(* what the data set looks like under window spw and subarray sub: all dumps, the channels of that window, the
   products of that subarray *)
Definition view (xo : SelectX.xobs) (spw sub : Z) : Select.obs := SelectX.view_of xo (win_of xo spw) (sub_of xo sub).

Definition cfg_at (wc : wcfg) (spw sub : Z) : cfg :=
  let c := w_cfg wc in
  {| c_fmt := c_fmt c; c_obs := view (w_xo wc) spw sub; c_dup := c_dup c; c_upper := c_upper c;
     c_centroid := c_centroid c; c_segs := c_segs c; c_dump := c_dump c; c_cbf_dump := c_cbf_dump c; c_off := c_off c;
     c_ts := c_ts c; c_atoms := c_atoms c |}.
Definition cfg_of (wc : wcfg) (s : SelectX.xst) : cfg := cfg_at wc (SelectX.x_spw s) (SelectX.x_sub s).

(* the window / subarray dump i was recorded with (Observation/spw_index, Observation/subarray_index) *)
Definition dump_win (xo : SelectX.xobs) (i : Z) : Z :=
  match nth_error (SelectX.x_dumps xo) (Z.to_nat i) with Some x => SelectX.xd_spw x | None => -1 end.
Definition dump_sub (xo : SelectX.xobs) (i : Z) : Z :=
  match nth_error (SelectX.x_dumps xo) (Z.to_nat i) with Some x => SelectX.xd_sub x | None => -1 end.

(* ------------------------------------------------------------------------------------------------ *)
(* The state machine                                                                                  *)

Record wstate := { ws_sel : SelectX.xst; ws_ixs : list indexer }.

Inductive wop :=
| WSelect (kw : SelectX.xkwargs)
| WAcquire (k : kind)
| WIndex (id : nat) (ix2 : list aidx)
| WObserve.

Definition wstart (wc : wcfg) : wstate := {| ws_sel := SelectX.xinit (w_xo wc); ws_ixs := [] |}.

(* d.vis / d.flags / d.weights / d.timestamps now: the format glue on the masks of the active window / subarray *)
Definition wacquire (wc : wcfg) (s : SelectX.xst) (k : kind) : indexer := acquire (cfg_of wc s) (SelectX.x_core s) k.

Definition wstep (wc : wcfg) (d : wstate) (o : wop) : wstate :=
  match o with
  | WSelect kw => {| ws_sel := snd (SelectX.xselect (w_xo wc) (ws_sel d) kw); ws_ixs := ws_ixs d |}
  | WAcquire k => {| ws_sel := ws_sel d; ws_ixs := ws_ixs d ++ [wacquire wc (ws_sel d) k] |}
  | WIndex _ _ | WObserve => d
  end.

Definition wrun (wc : wcfg) (d : wstate) (ops : list wop) : wstate := fold_left (wstep wc) ops d.

Definition windex_op (S : tree) (d : wstate) (id : nat) (ix2 : list aidx) : res nd :=
  match nth_error (ws_ixs d) id with Some x => index S x ix2 | None => Err end.

(* every select() call of the history is a Python call (distinct keywords) *)
Definition call_ok (o : wop) : Prop :=
  match o with WSelect kw => NoDup (map fst kw) | _ => True end.
(* ... and none of them raised part-way (accepted, or rejected with the documented TypeError / IndexError, which leave
   the data set untouched): the public attributes are then those of the masks *)
Fixpoint accepted (wc : wcfg) (d : wstate) (ops : list wop) : Prop :=
  match ops with
  | [] => True
  | o :: r =>
      match o with
      | WSelect kw => fst (SelectX.xselect (w_xo wc) (ws_sel d) kw) <> SelectX.OFail
      | _ => True
      end /\ accepted wc (wstep wc d o) r
  end.

(* ------------------------------------------------------------------------------------------------ *)
(* Public attributes of the multi-window data set (computed by select() from the masks and the ACTIVE window)  *)

Definition wdumps (s : SelectX.xst) : list Z := SelectX.p_dumps (SelectX.x_pub s).
Definition wchannels (s : SelectX.xst) : list Z := SelectX.p_channels (SelectX.x_pub s).
Definition wfreqs (s : SelectX.xst) : list Z := SelectX.p_freqs (SelectX.x_pub s).
Definition wshape (s : SelectX.xst) : list Z := SelectX.p_shape (SelectX.x_pub s).
Definition wcps (s : SelectX.xst) : list Select.cprod := SelectX.p_cps (SelectX.x_pub s).

(* SPEC: the documented frequency of channel ch of the window dump i was recorded with *)
Definition dump_chan_freq (xo : SelectX.xobs) (i ch : Z) : Z :=
  nth (Z.to_nat ch) (SelectX.w_freqs (win_of xo (dump_win xo i))) (-1).
(* SPEC: product number l of the subarray dump i was recorded with *)
Definition dump_cprod (xo : SelectX.xobs) (i l : Z) : Select.cprod :=
  nth (Z.to_nat l) (SelectX.sa_cps (sub_of xo (dump_sub xo i))) ((-1, -1), (-1, -1)).

(* ------------------------------------------------------------------------------------------------ *)
(* Wire                                                                                               *)

Definition to_wop (x : sx) : wop :=
  match x with
  | L [I 0; kw] => WSelect (SelectX.to_xkwargs kw)
  | L [I 1; I k] => WAcquire (to_kind k)
  | L [I 2; I id; ix2] => WIndex (Z.to_nat id) (map LazyIdx.to_aidx (to_list ix2))
  | _ => WObserve
  end.

Definition of_pub5 (p : SelectX.pubattrs) : sx :=
  L [of_Zs (SelectX.p_shape p); of_Zs (SelectX.p_dumps p); of_Zs (SelectX.p_channels p); of_Zs (SelectX.p_freqs p);
     L (map SelectX.of_cprod (SelectX.p_cps p)); of_Zs (SelectX.p_ants p)].

(* what is observed: the nine items of DataSet.of_observe on the view under the active window (mask sums, positions,
   timestamps model / spec, lengths, channel / dump positions, sensor cache), then
     [spw; sub] of the model, its public attributes, [spw; sub] and public attributes demanded by the SPEC of select()
     (SelectX.xspec_select: the documented rule), and for every dump the spec selects the [window; subarray] it was
     recorded with and the documented frequency of every selected channel IN THAT window,
     the documented times of ALL stored dumps *)
Definition of_wobserve (wc : wcfg) (s : SelectX.xst) (sp : SelectX.xmasks) : sx :=
  let xo := w_xo wc in
  let c := cfg_of wc s in
  let spub := SelectX.spec_pub xo sp in
  match of_observe c (SelectX.x_core s) with
  | L items =>
      L (items ++ [L [I (SelectX.x_spw s); I (SelectX.x_sub s)]; of_pub5 (SelectX.x_pub s);
                   L [I (SelectX.xm_spw sp); I (SelectX.xm_sub sp)]; of_pub5 spub;
                   L (map (fun i => L [I (dump_win xo i); I (dump_sub xo i);
                                       of_Zs (map (dump_chan_freq xo i) (SelectX.p_channels spub))])
                          (SelectX.p_dumps spub));
                   L (map (fun t => TimeFreq.of_Q (spec_conv_t c t)) (all_ts c))])
  | other => other
  end.

Definition of_code (oc : SelectX.outcome) : Z :=
  match oc with SelectX.OOk => 0 | SelectX.OTypeError => 1 | SelectX.OFail => 2 | SelectX.OIndexError => 3 end.

(* the model, the spec masks demanded after the last call, and the acquisition-time selections the spec needs *)
Fixpoint wrun_wire (wc : wcfg) (d : wstate) (sp : SelectX.xmasks) (acq : list (SelectX.xst * kind)) (ops : list wop)
  : list sx :=
  match ops with
  | [] => []
  | o :: rest =>
      match o with
      | WSelect kw =>
          let r := SelectX.xselect (w_xo wc) (ws_sel d) kw in
          let rs := SelectX.xspec_select (w_xo wc) (SelectX.xm_of (ws_sel d)) kw in
          L [I (of_code (fst r)); I (of_code (fst rs))]
          :: match fst r with
             | SelectX.OFail => []         (* raised part-way: the history is abandoned (C02 follows those) *)
             | _ => wrun_wire wc (wstep wc d o) (snd rs) acq rest
             end
      | WAcquire k =>
          let s := ws_sel d in
          let x := wacquire wc s k in
          L [of_Zs (adv_shape x); of_conv (ix_conv x);
             of_Zs (match k with KTime => [zlen (dumps (SelectX.x_core s))] | _ => shape (SelectX.x_core s) end);
             of_conv (spec_conv_of (cfg_of wc s) (SelectX.x_core s) k)]
          :: wrun_wire wc (wstep wc d o) sp (acq ++ [(s, k)]) rest
      | WIndex id ix2 =>
          L [match nth_error (ws_ixs d) id with
             | Some x => of_nd (index (stored_labels x) x ix2)
             | None => L [I 0]
             end;
             match nth_error acq id with
             | Some (s, k) => of_spec (spec_index (cfg_of wc s) (SelectX.x_core s) k ix2)
             | None => L [I 0]
             end]
          :: wrun_wire wc d sp acq rest
      | WObserve => of_wobserve wc (ws_sel d) sp :: wrun_wire wc d sp acq rest
      end
  end.

(* (cfg xobs (op ...)) -> (out ...): cfg as for wire_1 (its obs item is ignored: give ()), xobs as for wire_21 *)
Definition wire_1005 (x : sx) : sx :=
  match x with
  | L [cf; xob; ops] =>
      let wc := {| w_cfg := to_cfg cf; w_xo := SelectX.to_xobs xob |} in
      L (wrun_wire wc (wstart wc) (SelectX.xm_of (SelectX.xinit (w_xo wc))) [] (map to_wop (to_list ops)))
  | _ => sx_err
  end.
