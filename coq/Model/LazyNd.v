(* C05: the N-dimensional chunk loop of LazyIndexer.__getitem__ (lazy_indexer.py, "Use dense N-dimensional meshgrid to
   slice data set into chunks ...") on top of the per-axis plans of Model/LazyIdx.v.

     selection / segment_sizes   -> [plan] per axis ([LazyIdx.axis_plan]); one [cseg] per segment ([plan_csegs])
     segment_sizes == [[]]*ndim  -> [nd_extract], first branch: the dataset is read once with the scalars
     np.mgrid[...].reshape(ndim, -1).T
                                 -> [product]: every combination of one segment per axis, first axis slowest
     np.empty([np.sum(segments) for segments in segment_sizes if segments])
                                 -> [garbage (out_shape_of plans)]: a buffer of that shape with ARBITRARY content
                                    (the theorems quantify over every such buffer, the wire fills it with a sentinel)
     chunk = dataset[dataset_select]           -> [read_sel] per axis (scalar: numpy integer; slice: Python slice
                                                  semantics on the axis), [take ds rs]
     post-selection one dimension at a time    -> [post_sel] per kept axis (slice(None) / slice(0, 0, 1) / integer
                                                  array), [take chunk posts]
     out_data[out_select] = chunk              -> [write_nd]: block assignment at the output slices of the kept axes;
                                                  the chunk must have the shape of the block (an axis of length 1
                                                  is broadcast, as numpy does) and the block must lie inside the
                                                  buffer.
   [getitem_nd] is LazyIndexer.__getitem__ with this loop; LazyNdP.getitem_nd_refines proves that whenever it answers,
   [LazyIdx.getitem] (outer product of the per-axis gathers) gives the same answer, so C05_getitem carries over. *)
From Coq Require Import ZArith List Bool.
From KV Require Import Base.Sx Base.PySlice Base.AxisIndex Base.NdArray Base.LazyDType Gen.Generated Model.LazyIdx.
Import ListNotations.
Open Scope Z_scope.

(* one entry of selection[axis]: (dim_keep, None, None) or (dataset slice, post-selection, output slice) *)
Inductive cseg := CScalar (z : Z) | CSeg (s : seg).

Definition plan_csegs (p : plan) : list cseg :=
  match p with PScalar z => [CScalar z] | PSegs l => map CSeg l end.

(* C-order product: chunk_indices.reshape(ndim, -1).T *)
Fixpoint product {A} (ls : list (list A)) : list (list A) :=
  match ls with
  | [] => [[]]
  | l :: r => flat_map (fun x => map (cons x) (product r)) l
  end.

(* what one axis contributes to one chunk: the positions read from the dataset (and whether the axis is dropped), and
   for a kept axis the post-selection (positions inside the chunk) and the output slice.  [tot] is the length of the
   output buffer on this axis. *)
Definition post_sel (len : Z) (p : post) : res (list Z) :=
  match p with
  | PAll => Ok (zrange len)
  | PEmpty => Ok []
  | PIdx is => mapM (wrap_res len) is
  end.

Definition axis_part (n tot : Z) (c : cseg) : res (sel * option (list Z * (Z * Z))) :=
  match c with
  | CScalar z => q <- wrap_res n z ;; Ok (([q], true), None)
  | CSeg s =>
      ps <- ds_read n (sg_start s) (sg_stop s) (sg_step s) ;;
      idx <- post_sel (zlen ps) (sg_post s) ;;
      (* out_data[o1:o2] = chunk: the length must agree, or numpy broadcasts a chunk of length 1 on this axis (its
         single element is repeated; reachable with a backward slice that selects nothing) *)
      let k := sg_o2 s - sg_o1 s in
      idx' <- (if zlen idx =? k then Ok idx
               else if zlen idx =? 1 then Ok (repeat (hd 0 idx) (Z.to_nat k)) else Err) ;;
      (* ... and the slice must lie inside the buffer *)
      if (0 <=? sg_o1 s) && (sg_o1 s <=? sg_o2 s) && (sg_o2 s <=? tot)
      then Ok ((ps, false), Some (idx', (sg_o1 s, sg_o2 s))) else Err
  end.

Definition part_reads (parts : list (sel * option (list Z * (Z * Z)))) : list sel := map fst parts.
Fixpoint part_posts (parts : list (sel * option (list Z * (Z * Z)))) : list sel :=
  match parts with
  | [] => []
  | (_, Some (idx, _)) :: r => (idx, false) :: part_posts r
  | (_, None) :: r => part_posts r
  end.
Fixpoint part_ranges (parts : list (sel * option (list Z * (Z * Z)))) : list (Z * Z) :=
  match parts with
  | [] => []
  | (_, Some (_, rg)) :: r => rg :: part_ranges r
  | (_, None) :: r => part_ranges r
  end.

(* out[o:o+len vals] updated element by element *)
Fixpoint zip_at {A B} (f : A -> B -> A) (out : list A) (o : nat) (vals : list B) : list A :=
  match vals with
  | [] => out
  | v :: r => match o, out with
              | O, h :: t => f h v :: zip_at f t O r
              | S k, h :: t => h :: zip_at f t k (v :: r)
              | _, [] => []
              end
  end.

(* out_data[o1:o2, ...] = chunk *)
Fixpoint write_nd (ranges : list (Z * Z)) (out chunk : tree) : tree :=
  match ranges with
  | [] => chunk
  | (o1, _) :: rest => Node (zip_at (write_nd rest) (children out) (Z.to_nat o1) (children chunk))
  end.

Definition plan_total (p : plan) : Z := match p with PScalar _ => 0 | PSegs l => seg_total l end.

(* one iteration of the chunk loop; an axis is (length of the dataset axis, plan of the axis) *)
Definition do_chunk (axes : list (Z * plan)) (ds : tree) (out : tree) (cs : list cseg) : res tree :=
  parts <- mapM (fun p => axis_part (fst (fst p)) (plan_total (snd (fst p))) (snd p)) (combine axes cs) ;;
  let chunk := take (take ds (part_reads parts)) (part_posts parts) in
  Ok (write_nd (part_ranges parts) out chunk).

Fixpoint fold_res {A B} (f : A -> B -> res A) (l : list B) (a : A) : res A :=
  match l with [] => Ok a | x :: r => a' <- f a x ;; fold_res f r a' end.

Definition plan_is_scalar (p : plan) : bool := match p with PScalar _ => true | PSegs _ => false end.

(* [np.sum(segments) for segments in segment_sizes if segments] *)
Definition out_shape_of (plans : list plan) : list Z :=
  flat_map (fun p => match p with PScalar _ => [] | PSegs l => [seg_total l] end) plans.

Definition scalar_sel (n : Z) (p : plan) : res sel :=
  match p with PScalar z => q <- wrap_res n z ;; Ok ([q], true) | PSegs _ => Err end.

Definition nd_extract (garbage : list Z -> tree) (shape : list Z) (plans : list plan) (ds : tree) : res tree :=
  let axes := combine shape plans in
  if forallb plan_is_scalar plans
  then rs <- mapM (fun a => scalar_sel (fst a) (snd a)) axes ;; Ok (take ds rs)
  else fold_res (do_chunk axes ds) (product (map (fun a => plan_csegs (snd a)) axes)) (garbage (out_shape_of plans)).

Definition lazy_plans (li : lazyidx) (ixs : list aidx) : res (list plan) :=
  mapM (fun p => m <- map_stage2 (snd (fst p)) (snd p) ;; axis_plan (fst (fst p)) m)
       (combine (combine (li_shape li) (li_lookup li)) (pad_to (List.length (li_shape li)) ixs)).

(* LazyIndexer(ds, keep, ts)[ixs] with the chunk loop *)
Definition getitem_nd (garbage : list Z -> tree) (li : lazyidx) (ds : tree) (ixs : list aidx) : res arr :=
  plans <- lazy_plans li ixs ;;
  t <- nd_extract garbage (li_shape li) plans ds ;;
  apply_transforms (li_ts li) (mk_arr (li_dtype0 li) (mk_nd (out_shape_of plans) t)).

(* a buffer of the given shape filled with one value (the wire's np.empty) *)
Fixpoint const_tree (v : Z) (shape : list Z) : tree :=
  match shape with
  | [] => Leaf v
  | d :: r => Node (repeat (const_tree v r) (Z.to_nat d))
  end.

(* len(indexer) = indexer.shape[0] *)
Definition lazy_len (li : lazyidx) : res Z := s <- lazy_shape li ;; match s with d :: _ => Ok d | [] => Err end.

(* ---------------------------------------------------------------- wire *)

Definition garbage_value : Z := -777777.

(* (shape k1 ts dt k2) -> (model[N-d loop] spec shape-property dtype-property model[outer product] len),
   dataset = elements of dtype dt labelled in C order *)
Definition wire_5 (x : sx) : sx :=
  match x with
  | L [shape; k1; ts; I dt; k2] =>
      let shape := to_Zs shape in let k1 := map to_aidx (to_list k1) in
      let ts := map to_tr (to_list ts) in let k2 := map to_aidx (to_list k2) in
      let ds := tree_map (enc_val dt) (arange shape 0) in
      let spec := of_arr (spec_getitem shape ds k1 ts dt k2) in
      match mk_lazy shape k1 ts dt with
      | Err => L [L [I 0]; spec; L [I 0]; I 0; L [I 0]; I (-1)]
      | Ok li => L [of_arr (getitem_nd (const_tree garbage_value) li ds k2); spec; of_shape (lazy_shape li);
                    I (lazy_dtype li); of_arr (getitem li ds k2);
                    match lazy_len li with Ok d => I d | Err => I (-1) end]
      end
  | _ => sx_err
  end.
