(* C15, round 3: the flags as the averager reads them.  katdal/averager.py _average_visibilities

     flag_u8 = flag.view(np.uint8)                       (24)
     wzero = weight.dtype.type(0)                        (39)
     v = vis[t, c, b1]; w = weight[t, c, b1]
     f = (flag_u8[t, c, b1] != 0)                        (66)
     if f: w = wzero
     flag_any[b] |= f; flag_all[b] &= f; vis_sum[b] += v; vis_weight_sum[b] += w * v; weight_sum[b] += w

   A flag is a BYTE: a bool array handed in by a caller may be a VIEW of arbitrary bytes - VisibilityDataV4 delivers
   d.flags as `bitwise_and(select, raw_flags).view(bool)` (visdatav4.py 646-654), so a True is backed by 2, 4, 16, 80 ...
   The test on the byte and the weight given to a flagged sample are regenerated from the source. *)
From Coq Require Import ZArith QArith Qcanon List Bool Arith.
From KV Require Import Base.Sx Gen.Generated Model.Averager Model.AveragerApi.
Import ListNotations.
Close Scope Q_scope.
Open Scope nat_scope.

(* visibility, weight, flag byte *)
Definition bsample := (cq * Qc * Z)%type.
Definition bsample0 : bsample := (cq0, 0%Qc, 0%Z).
Definition averager_wzero : Qc := Q2Qc (averager_wzero_num # averager_wzero_den).

(* the loop body on the byte, as written *)
Definition step_b (a : acc) (s : bsample) : acc :=
  let v := fst (fst s) in
  let f := averager_flag_is_set (snd s) in
  let w := if f then averager_wzero else snd (fst s) in
  mkAcc (cadd (vis_sum a) v) (cadd (vis_weight_sum a) (cscale w v)) (weight_sum a + w)%Qc
        (flag_any a || f) (flag_all a && f).

(* what the rest of the kernel sees of a sample *)
Definition to_flagged (s : bsample) : sample := (fst (fst s), snd (fst s), averager_flag_is_set (snd s)).
Definition map3 {A B} (f : A -> B) (a : arr3 A) : arr3 B := map (map (map f)) a.

(* average_visibilities on arrays whose flags are bytes *)
Definition average_bytes (a : arr3 bsample) (T F B timeav chanav : nat) (flagav : bool) : option (arr3 sample) :=
  average_api (map3 to_flagged a) T F B timeav chanav flagav.
Definition average_bytes_default (a : arr3 bsample) (T F B : nat) : option (arr3 sample) :=
  average_default (map3 to_flagged a) T F B.

(* re-encoding of the flag bytes (what a view / a different producer of the bool array amounts to) *)
Definition recode (g : Z -> Z) (a : arr3 bsample) : arr3 bsample := map3 (fun s => (fst s, g (snd s))) a.
(* VisibilityDataV4.flags: bitwise_and(select, raw) viewed as bool - the byte is kept *)
Definition v4_deliver (select : Z) : arr3 bsample -> arr3 bsample := recode (Z.land select).

(* NOT katdal: zeroing the weight arithmetically with the raw byte, w * (1 - byte); only there to show that the
   theorems discriminate *)
Definition step_arith (a : acc) (s : bsample) : acc :=
  let v := fst (fst s) in
  let f := negb (Z.eqb (snd s) 0) in
  let w := (snd (fst s) * (1 - Q2Qc (inject_Z (snd s))))%Qc in
  mkAcc (cadd (vis_sum a) v) (cadd (vis_weight_sum a) (cscale w v)) (weight_sum a + w)%Qc
        (flag_any a || f) (flag_all a && f).

(* ------------------------------------------------------------------ wire *)
(* sample on the wire: ((re k) (im k) (w k) byte) *)
Definition to_bsample (x : sx) : bsample :=
  match x with L [re; im; w; I f] => ((to_Qc re, to_Qc im), to_Qc w, f) | _ => bsample0 end.

(* (T F B (timeav chanav flagav)|() select samples) -> as wire_1510; select < 0 = the flags handed over as they are *)
Definition wire_1513 (x : sx) : sx :=
  match x with
  | L [T; F; B; opts; I select; a] =>
      let T := to_nat T in let F := to_nat F in let B := to_nat B in
      let a := to_arr3 to_bsample a in
      let a := if (select <? 0)%Z then a else v4_deliver select a in
      let '(timeav, chanav, flagav) :=
          match opts with
          | L [timeav; chanav; flagav] => (to_nat timeav, to_nat chanav, to_bool flagav)
          | _ => (averager_default_timeav, averager_default_chanav, averager_default_flagav)
          end in
      let r := match opts with
               | L [_; _; _] => average_bytes a T F B timeav chanav flagav
               | _ => average_bytes_default a T F B
               end in
      let ta := if averager_clamp_timeav then Nat.min timeav T else timeav in
      let ca := if averager_clamp_chanav then Nat.min chanav F else chanav in
      match r with
      | None => L [I 0; of_nats [timeav; chanav]]
      | Some r => L [I 1; of_nats [T / ta; F / ca; B]; of_arr3 of_sample r; of_nats [timeav; chanav]]
      end
  | _ => sx_err
  end.
