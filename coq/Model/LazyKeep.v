(* C05: transforms that USE their second argument.  LazyTransform.__call__(data, keep) hands every transform the
   second-stage index exactly as the user wrote it (`original_keep = tuple(keep)`, before padding and before the mapping
   through the first-stage lookup); katdal's own transforms depend on it:
     [KKeepdims]  h5datav2/v3 `_force_full_dim` / `_force_3dim`: data[tuple(np.newaxis if np.isscalar(k) else slice(None)
                  for k in keep[:dims] + (slice(None),) * (dims - len(keep)))] - scalar-indexed axes come back with length 1;
     [KAux c]     h5datav3 `extract_weights`: data combined with ANOTHER array of the first-stage shape indexed with the
                  same keep (weights_channel[keep]); here data + c * aux[keep] with aux = C-order labels of that shape,
                  so every item of keep (kind and content) is visible in the values.
   [KPlain t] are the keep-blind transforms of Model/LazyIdx.v.
   The layer sits on top of LazyIdx / LazyNd / ConcatIdx without changing them: the indexer is built with an empty
   chain, its answer (out_data) is then folded through the keep-aware chain with the context (keep, first-stage shape),
   as `reduce(lambda data, transform: transform(data, original_keep), self.transforms, out_data)` does. *)
From Coq Require Import ZArith List Bool.
From KV Require Import Base.Sx Base.PySlice Base.AxisIndex Base.NdArray Base.LazyDType Gen.Generated
  Model.LazyIdx Model.LazyNd Model.ConcatIdx.
Import ListNotations.
Open Scope Z_scope.

Inductive ktr := KPlain (t : tr) | KKeepdims | KAux (c : Z).

Record kctx := mk_kctx { k_keep : list aidx; k_init : list Z }.

(* declared new_shape / dtype of a transform (both keep-aware transforms declare the identity and no dtype) *)
Definition k_new_shape (t : ktr) (sh : list Z) : list Z := match t with KPlain t => tr_new_shape t sh | _ => sh end.
Definition k_dtype (t : ktr) (dt : Z) : Z := match t with KPlain t => tr_dtype t dt | _ => lazy_dtype_step None dt end.

(* data[newaxis / slice(None) per flag]: shape and content; numpy raises when the data has too few axes *)
Fixpoint keepdims_shape (flags : list bool) (sh : list Z) : res (list Z) :=
  match flags with
  | [] => Ok sh
  | true :: r => s <- keepdims_shape r sh ;; Ok (1 :: s)
  | false :: r => match sh with d :: sh' => s <- keepdims_shape r sh' ;; Ok (d :: s) | [] => Err end
  end.
Fixpoint keepdims_tree (flags : list bool) (t : tree) : tree :=
  match flags with
  | [] => t
  | true :: r => Node [keepdims_tree r t]
  | false :: r => Node (map (keepdims_tree r) (children t))
  end.

Fixpoint tree_zip (f : Z -> Z -> Z) (a b : tree) {struct a} : tree :=
  match a, b with
  | Leaf x, Leaf y => Leaf (f x y)
  | Node l, Node m =>
      Node ((fix go (l m : list tree) {struct l} : list tree :=
               match l, m with x :: l', y :: m' => tree_zip f x y :: go l' m' | _, _ => [] end) l m)
  | _, _ => a
  end.

Definition aux_numeric (dt : Z) : bool := (dt =? 0) || (dt =? 1) || (dt =? 2) || (dt =? 4) || (dt =? 5).

Definition k_apply (ctx : kctx) (t : ktr) (x : arr) : res arr :=
  match t with
  | KPlain t => tr_apply t x
  | KKeepdims =>
      let flags := map is_scalar (pad_to (List.length (k_init ctx)) (k_keep ctx)) in
      s <- keepdims_shape flags (nd_shape (a_nd x)) ;;
      Ok (mk_arr (a_dtype x) (mk_nd s (keepdims_tree flags (nd_body (a_nd x)))))
  | KAux c =>
      a <- oindex (mk_nd (k_init ctx) (arange (k_init ctx) 0)) (k_keep ctx) ;;
      if list_eqb (nd_shape a) (nd_shape (a_nd x)) && aux_numeric (a_dtype x)
      then Ok (mk_arr (a_dtype x) (mk_nd (nd_shape (a_nd x))
                                         (tree_zip (fun v w => v + c * w) (nd_body (a_nd x)) (nd_body a))))
      else Err
  end.

Fixpoint k_apply_all (ctx : kctx) (ts : list ktr) (x : arr) : res arr :=
  match ts with [] => Ok x | t :: r => y <- k_apply ctx t x ;; k_apply_all ctx r y end.

(* ---------------------------------------------------------------- LazyIndexer with a keep-aware chain *)

Record klazy := mk_klazy { kl_li : lazyidx; kl_ts : list ktr }.

(* the shape / dtype properties: the same fold and the same InvalidTransform test as LazyIdx.lazy_shape *)
Definition chain_shape (init : list Z) (ts : list ktr) : res (list Z) :=
  let new := fold_left (fun sh t => k_new_shape t sh) ts init in
  let head := firstn (List.length init) new in
  if negb (Nat.eqb (List.length head) 0) && is_prefix head init then Ok new else Err.
Definition chain_dtype (dt : Z) (ts : list ktr) : Z := fold_left (fun dt t => k_dtype t dt) ts dt.

Definition klazy_shape (k : klazy) : res (list Z) := chain_shape (initial_shape (kl_li k)) (kl_ts k).
Definition klazy_dtype (k : klazy) : Z := chain_dtype (li_dtype0 (kl_li k)) (kl_ts k).
Definition klazy_len (k : klazy) : res Z := s <- klazy_shape k ;; match s with d :: _ => Ok d | [] => Err end.

Definition mk_k (shape : list Z) (keep : list aidx) (ts : list ktr) (dt : Z) : res klazy :=
  li <- mk_lazy shape keep [] dt ;;
  let k := mk_klazy li ts in
  _ <- klazy_shape k ;; Ok k.

(* __getitem__: the chunk loop of LazyNd, then the chain with (original_keep, ...) *)
Definition getitem_k (garbage : list Z -> tree) (k : klazy) (ds : tree) (ixs : list aidx) : res arr :=
  x <- getitem_nd garbage (kl_li k) ds ixs ;;
  k_apply_all (mk_kctx ixs (initial_shape (kl_li k))) (kl_ts k) x.

(* SPEC: the chain applied, with the user's second-stage index, to source[first stage][second stage] *)
Definition spec_getitem_k (shape : list Z) (ds : tree) (k1 : list aidx) (ts : list ktr) (dt : Z) (k2 : list aidx) : res arr :=
  a1 <- oindex_keep (mk_nd shape ds) k1 ;;
  a2 <- oindex a1 k2 ;;
  k_apply_all (mk_kctx k2 (nd_shape a1)) ts (mk_arr dt a2).

(* ---------------------------------------------------------------- ConcatenatedLazyIndexer with a keep-aware chain *)

Record kconcat := mk_kconcat { kc_c : concat; kc_ts : list ktr }.

Definition kc_shape (k : kconcat) : res (list Z) := init <- c_initial_shape (c_parts (kc_c k)) ;; chain_shape init (kc_ts k).
Definition kc_dtype (k : kconcat) : res Z := d <- c_initial_dtype (c_parts (kc_c k)) ;; Ok (chain_dtype d (kc_ts k)).
Definition kc_len (k : kconcat) : res Z := s <- kc_shape k ;; match s with d :: _ => Ok d | [] => Err end.

Definition kc_mk (raws : list craw) (ts : list ktr) : res kconcat :=
  c <- c_mk raws [] ;;
  let k := mk_kconcat c ts in
  _ <- kc_shape k ;; _ <- kc_dtype k ;; Ok k.

Definition kc_getitem (k : kconcat) (ixs : list aidx) : res arr :=
  x <- c_getitem (kc_c k) ixs ;;
  init <- c_initial_shape (c_parts (kc_c k)) ;;
  k_apply_all (mk_kctx ixs init) (kc_ts k) x.

(* np.concatenate of the parts' first-stage results, indexed once; the chain sees the same index and the shape of the
   concatenation *)
Definition spec_concat_k (raws : list craw) (ts : list ktr) (ixs : list aidx) : res arr :=
  x <- spec_concat raws [] [] ;;
  y <- spec_concat raws [] ixs ;;
  k_apply_all (mk_kctx ixs (nd_shape (a_nd x))) ts y.

(* ---------------------------------------------------------------- wire *)

Definition to_ktr (x : sx) : ktr :=
  match x with
  | L [I 3] => KKeepdims
  | L [I 4; I c] => KAux c
  | _ => KPlain (to_tr x)
  end.

(* (shape k1 ts dt k2) -> (model[N-d loop + chain] spec shape-property dtype-property len), dataset = elements of dtype
   dt labelled in C order *)
Definition wire_53 (x : sx) : sx :=
  match x with
  | L [shape; k1; ts; I dt; k2] =>
      let shape := to_Zs shape in let k1 := map to_aidx (to_list k1) in
      let ts := map to_ktr (to_list ts) in let k2 := map to_aidx (to_list k2) in
      let ds := tree_map (enc_val dt) (arange shape 0) in
      let spec := of_arr (spec_getitem_k shape ds k1 ts dt k2) in
      match mk_k shape k1 ts dt with
      | Err => L [L [I 0]; spec; L [I 0]; I 0; I (-1)]
      | Ok k => L [of_arr (getitem_k (const_tree garbage_value) k ds k2); spec; of_shape (klazy_shape k);
                   I (klazy_dtype k); match klazy_len k with Ok d => I d | Err => I (-1) end]
      end
  | _ => sx_err
  end.

(* (parts ts dt ix) -> (model spec shape-property dtype-property len) *)
Definition wire_54 (x : sx) : sx :=
  match x with
  | L [parts; ts; I dt; ix] =>
      let raws := map (to_craw dt) (to_list parts) in
      let ts := map to_ktr (to_list ts) in let ix := map to_aidx (to_list ix) in
      let spec := of_arr (spec_concat_k raws ts ix) in
      match kc_mk raws ts with
      | Err => L [L [I 0]; spec; L [I 0]; I 0; I (-1)]
      | Ok k => L [of_arr (kc_getitem k ix); spec; of_shape (kc_shape k);
                   match kc_dtype k with Ok d => I d | Err => I (-1) end;
                   match kc_len k with Ok d => I d | Err => I (-1) end]
      end
  | _ => sx_err
  end.
