(* C05: model of katdal.lazy_indexer.LazyIndexer (the HDF5-era two-stage indexer) and the
   spec "transforms (source[first stage][second stage])" under outer indexing.

   The model follows lazy_indexer.py (as of the fix-C05 branch) step by step:
     __init__     -> [mk_lookup] per axis (slice -> arange or None when full; full-length mask ->
                     nonzero or None when all True; anything else -> atleast_1d), [mk_lazy]
     __getitem__  -> [map_stage2] (second-stage index mapped through the lookup),
                     [axis_plan] (scalar / slice / advanced: sortedness and range tests, empty
                     selection, contiguous segments, dense span-and-postselect vs one slice per
                     segment with running output offsets),
                     [axis_gather] (dataset read with Python slice semantics, post-selection,
                     assignment into the pre-allocated output incl. numpy's length-1 broadcast)
     shape/dtype  -> [lazy_shape] (with the InvalidTransform test) and [lazy_dtype].
   Not modelled here (NV, tied by the correspondence only): the N-d loop over the product of
   per-axis segments (np.mgrid) and numpy's block assignment; the model assembles the output as
   the outer product of the per-axis gathered positions ([NdArray.take]).

   Positions flowing through the algorithm are [Z] because raw (possibly negative or
   out-of-range) first-stage integers are stored in the lookup unchecked, exactly as in the code. *)
From Coq Require Import ZArith List Bool.
From KV Require Import Base.Sx Base.PySlice Base.AxisIndex Base.NdArray Base.LazyDType Gen.Generated.
Import ListNotations.
Open Scope Z_scope.

(* ---------------------------------------------------------------- stage 1: __init__ *)

Definition lookup := option (list Z).

Definition is_full (n s e st : Z) : bool := (s =? 0) && (e =? n) && (st =? 1).

Definition mk_lookup (n : Z) (ix : aidx) : res lookup :=
  match ix with
  | ASlice a b c =>
      match slice_indices n a b c with
      | None => Err
      | Some (s, e, st) => if is_full n s e st then Ok None else Ok (Some (py_range s e st))
      end
  | AInt z => Ok (Some [z])
  | AMask m => if zlen m =? n then (if forallb (fun b => b) m then Ok None else Ok (Some (nonzero m)))
               else Err   (* a mask of another length stays a bool array in the code: outside the model *)
  | AList l => Ok (Some l)
  end.

Definition init_len (n : Z) (lk : lookup) : Z := match lk with None => n | Some l => zlen l end.

(* ---------------------------------------------------------------- transforms *)

(* A LazyTransform as far as the property sees it: what it does to the data, its declared
   new_shape and its declared dtype.  [TMap a b dt]: elementwise x -> (a*x+b).astype(dt), shape kept,
   dtype [dt] (None = the dtype of the data).  [TDrop]: data[..., 0], new_shape = shape[:-1].
   [TAdd]: data[..., np.newaxis], new_shape = shape + (1,).
   Dtypes are the codes of Base/LazyDType.v, elements are encoded as there: a*x+b is computed in the dtype of
   the data (int64 for bool data, numpy's rule for bool * int) and then cast ([cast_val]); byte strings have
   no arithmetic (numpy raises). *)
Inductive tr := TMap (a b : Z) (dt : option Z) | TDrop | TAdd.

Definition tr_new_shape (t : tr) (shape : list Z) : list Z :=
  match t with TMap _ _ _ => shape | TDrop => removelast shape | TAdd => shape ++ [1] end.
(* one step of the dtype property's fold: `transform.dtype if transform.dtype is not None else dtype` (generated) *)
Definition tr_declared (t : tr) : option Z := match t with TMap _ _ d => d | _ => None end.
Definition tr_dtype (t : tr) (dt : Z) : Z := lazy_dtype_step (tr_declared t) dt.

Record arr := mk_arr { a_dtype : Z; a_nd : nd }.

Definition tr_apply (t : tr) (x : arr) : res arr :=
  let sh := nd_shape (a_nd x) in let body := nd_body (a_nd x) in
  match t with
  | TMap a b dt =>
      let d0 := a_dtype x in
      if is_bytes d0 then Err
      else Ok (mk_arr (tr_dtype t d0)
                      (mk_nd sh (tree_map (fun v => cast_val (if d0 =? 3 then 0 else d0) (tr_dtype t d0) (a * v + b)) body)))
  | TDrop => match rev sh with
             | [] => Err                                   (* 0-d data has no last axis *)
             | d :: _ => if d <=? 0 then Err               (* index 0 out of bounds *)
                         else Ok (mk_arr (a_dtype x) (mk_nd (removelast sh)
                                   (take body (full_sels (removelast sh) ++ [([0], true)]))))
             end
  | TAdd => Ok (mk_arr (a_dtype x) (mk_nd (sh ++ [1]) (add_last body)))
  end.

Fixpoint apply_transforms (ts : list tr) (x : arr) : res arr :=
  match ts with [] => Ok x | t :: r => y <- tr_apply t x ;; apply_transforms r y end.

(* ---------------------------------------------------------------- the indexer *)

Record lazyidx := mk_lazyidx {
  li_shape : list Z;          (* dataset.shape *)
  li_lookup : list lookup;    (* self._lookup *)
  li_ts : list tr;            (* self.transforms *)
  li_dtype0 : Z }.            (* dataset.dtype *)

Definition initial_shape (li : lazyidx) : list Z :=
  map (fun p => init_len (fst p) (snd p)) (combine (li_shape li) (li_lookup li)).

Fixpoint is_prefix (p l : list Z) : bool :=
  match p, l with
  | [], _ => true
  | x :: p', y :: l' => (x =? y) && is_prefix p' l'
  | _ :: _, [] => false
  end.

(* the shape property: fold new_shape, then `new_shape[:ndim] in [initial[:1], ..., initial[:ndim]]` *)
Definition lazy_shape (li : lazyidx) : res (list Z) :=
  let init := initial_shape li in
  let new := fold_left (fun sh t => tr_new_shape t sh) (li_ts li) init in
  let head := firstn (List.length init) new in
  if negb (Nat.eqb (List.length head) 0) && is_prefix head init then Ok new else Err.

Definition lazy_dtype (li : lazyidx) : Z := fold_left (fun dt t => tr_dtype t dt) (li_ts li) (li_dtype0 li).

Definition mk_lazy (shape : list Z) (keep : list aidx) (ts : list tr) (dt : Z) : res lazyidx :=
  lks <- mapM (fun p => mk_lookup (fst p) (snd p)) (combine shape (pad_to (List.length shape) keep)) ;;
  let li := mk_lazyidx shape lks ts dt in
  _ <- lazy_shape li ;; Ok li.

(* ---------------------------------------------------------------- stage 2: __getitem__ *)

Inductive mapped := MScalar (z : Z) | MSlice (a b c : option Z) | MMask (m : list bool) | MArr (l : list Z).

(* keep = [dkeep if dlookup is None else dlookup[dkeep]] *)
Definition map_stage2 (lk : lookup) (ix : aidx) : res mapped :=
  match lk with
  | None => Ok (match ix with
                | AInt z => MScalar z | ASlice a b c => MSlice a b c | AMask m => MMask m | AList l => MArr l
                end)
  | Some l =>
      match ix with
      | AInt z => v <- np_get l z ;; Ok (MScalar v)
      | ASlice a b c => match slice_positions (zlen l) a b c with
                        | None => Err
                        | Some ps => Ok (MArr (map (znth l) ps))
                        end
      | AMask m => if zlen m =? zlen l then Ok (MArr (select m l)) else Err
      | AList is => vs <- np_take l is ;; Ok (MArr vs)
      end
  end.

Inductive post := PAll | PEmpty | PIdx (l : list Z).

(* one contiguous segment: (dataset slice, post-selection, output slice) *)
Record seg := mk_seg { sg_start : Z; sg_stop : Z; sg_step : Z; sg_post : post; sg_o1 : Z; sg_o2 : Z }.

Inductive plan := PScalar (z : Z) | PSegs (l : list seg).

(* np.any(np.diff(dim_keep) <= 0): the test on one difference is generated from the source *)
Fixpoint sorted_ok (l : list Z) : bool :=
  match l with
  | [] => true
  | x :: r => match r with [] => true | y :: _ => negb (lazy_diff_rejected (y - x)) && sorted_ok r end
  end.

(* runs of consecutive integers [first, last+1) of a sorted list: jumps where np.diff(dim_keep) > 1 (generated) *)
Fixpoint runs (first prev : Z) (l : list Z) : list (Z * Z) :=
  match l with
  | [] => [(first, prev + 1)]
  | x :: r => if lazy_jump (x - prev) then (first, prev + 1) :: runs x x r else runs first x r
  end.
Definition segments (l : list Z) : list (Z * Z) := match l with [] => [] | x :: r => runs x x r end.

(* one slice per segment, contiguous output slices (np.cumsum of the segment sizes) *)
Fixpoint sparse_segs (off : Z) (rs : list (Z * Z)) : list seg :=
  match rs with
  | [] => []
  | (s, e) :: r => mk_seg s e 1 PAll off (off + (e - s)) :: sparse_segs (off + (e - s)) r
  end.

(* len(dim_keep) > 0.2 * dim_len and len(segments) > 1, constants from the source *)
Definition dense (len_keep dim_len nsegs : Z) : bool :=
  (lazy_dense_num * dim_len <? lazy_dense_den * len_keep) && (lazy_dense_min_segments <? nsegs).

Definition adv_segs (use_dense : bool) (l : list Z) : list seg :=
  let rs := segments l in
  if use_dense
  then [mk_seg (fst (hd (0, 0) rs)) (snd (last rs (0, 0))) 1 (PIdx (map (fun x => x - hd 0 l) l)) 0 (zlen l)]
  else sparse_segs 0 rs.

(* advanced selection of the (integer) positions l on an axis of length n *)
Definition adv_plan (n : Z) (l : list Z) : res plan :=
  match l with
  | [] => Ok (PSegs [mk_seg 0 1 1 PEmpty 0 0])
  | x :: _ =>
      if lazy_out_of_range x (last l 0) n then Err     (* dim_keep[0] < 0 or dim_keep[-1] >= dim_len (generated) *)
      else Ok (PSegs (adv_segs (dense (zlen l) n (zlen (segments l))) l))
  end.

Definition axis_plan (n : Z) (m : mapped) : res plan :=
  match m with
  | MScalar z => Ok (PScalar z)
  | MSlice a b c =>
      match slice_indices n a b c with
      | None => Err
      | Some (s, e, st) => Ok (PSegs [mk_seg s e st PAll 0 (range_len s e st)])
      end
  | MMask m => if zlen m =? n then adv_plan n (nonzero m) else Err
  | MArr l => if sorted_ok l then adv_plan n l else Err
  end.

(* dataset[slice(s, e, st)] on an axis of length n: positions read (Python slice semantics) *)
Definition ds_read (n s e st : Z) : res (list Z) :=
  match slice_positions n (Some s) (Some e) (Some st) with Some ps => Ok ps | None => Err end.

Definition post_select (p : post) (chunk : list Z) : res (list Z) :=
  match p with PAll => Ok chunk | PEmpty => Ok [] | PIdx is => np_take chunk is end.

(* out[o1:o2] = vals  (lengths equal, or numpy broadcasts a single element) *)
Fixpoint write_at (out : list (option Z)) (o : nat) (vals : list Z) : list (option Z) :=
  match vals with
  | [] => out
  | v :: r => match o, out with
              | O, _ :: t => Some v :: write_at t O r
              | O, [] => []
              | S k, h :: t => h :: write_at t k (v :: r)
              | S k, [] => []
              end
  end.

Definition assign (out : list (option Z)) (o1 o2 : Z) (vals : list Z) : res (list (option Z)) :=
  if zlen vals =? o2 - o1 then Ok (write_at out (Z.to_nat o1) vals)
  else if zlen vals =? 1 then Ok (write_at out (Z.to_nat o1) (repeat (hd 0 vals) (Z.to_nat (o2 - o1))))
  else Err.

Definition do_seg (n : Z) (out : list (option Z)) (s : seg) : res (list (option Z)) :=
  chunk <- ds_read n (sg_start s) (sg_stop s) (sg_step s) ;;
  vals <- post_select (sg_post s) chunk ;;
  assign out (sg_o1 s) (sg_o2 s) vals.

Fixpoint do_segs (n : Z) (out : list (option Z)) (l : list seg) : res (list (option Z)) :=
  match l with [] => Ok out | s :: r => out' <- do_seg n out s ;; do_segs n out' r end.

Definition all_filled (out : list (option Z)) : res (list Z) :=
  mapM (fun o => match o with Some v => Ok v | None => Err end) out.   (* None = np.empty garbage *)

Definition seg_total (l : list seg) : Z := fold_right (fun s acc => (sg_o2 s - sg_o1 s) + acc) 0 l.

(* dataset positions delivered on one axis, in output order, and whether the axis is dropped *)
Definition axis_gather (n : Z) (p : plan) : res sel :=
  match p with
  | PScalar z => q <- wrap_res n z ;; Ok ([q], true)
  | PSegs l =>
      out <- do_segs n (repeat None (Z.to_nat (seg_total l))) l ;;
      g <- all_filled out ;; Ok (g, false)
  end.

Definition axis_sel (n : Z) (lk : lookup) (ix : aidx) : res sel :=
  m <- map_stage2 lk ix ;; p <- axis_plan n m ;; axis_gather n p.

Definition lazy_sels (li : lazyidx) (ixs : list aidx) : res (list sel) :=
  mapM (fun p => axis_sel (fst (fst p)) (snd (fst p)) (snd p))
       (combine (combine (li_shape li) (li_lookup li)) (pad_to (List.length (li_shape li)) ixs)).

(* LazyIndexer(ds, keep, ts)[ixs] *)
Definition getitem (li : lazyidx) (ds : tree) (ixs : list aidx) : res arr :=
  sels <- lazy_sels li ixs ;;
  apply_transforms (li_ts li) (mk_arr (li_dtype0 li) (mk_nd (take_shape sels) (take ds sels))).

(* ---------------------------------------------------------------- SPEC *)

(* transforms (source[first stage][second stage]) under outer indexing; the first stage keeps
   integer-indexed axes (documented LazyIndexer convention: self[:].shape) *)
Definition spec_getitem (shape : list Z) (ds : tree) (k1 : list aidx) (ts : list tr) (dt : Z) (k2 : list aidx) : res arr :=
  a1 <- oindex_keep (mk_nd shape ds) k1 ;;
  a2 <- oindex a1 k2 ;;
  apply_transforms ts (mk_arr dt a2).

(* ---------------------------------------------------------------- wire *)

Definition to_aidx (x : sx) : aidx :=
  match x with
  | L [I 0; I z] => AInt z
  | L [I 1; a; b; c] => ASlice (to_optZ a) (to_optZ b) (to_optZ c)
  | L [I 2; m] => AMask (to_bools m)
  | L [I 3; l] => AList (to_Zs l)
  | _ => full
  end.
Definition to_tr (x : sx) : tr :=
  match x with
  | L [I 0; I a; I b; dt] => TMap a b (to_optZ dt)
  | L [I 1] => TDrop
  | _ => TAdd
  end.
Definition of_arr (r : res arr) : sx :=
  match r with
  | Ok x => L [I 1; I (a_dtype x); of_Zs (nd_shape (a_nd x)); of_Zs (flatten (nd_body (a_nd x)))]
  | Err => L [I 0]
  end.
Definition of_shape (r : res (list Z)) : sx := match r with Ok s => L [I 1; of_Zs s] | Err => L [I 0] end.

(* wire_5 (the LazyIndexer case) lives in Model/LazyNd.v: it runs the N-d chunk loop *)

(* differential of PySlice against Python: (n a b c) -> (ok start stop step positions) *)
Definition wire_50 (x : sx) : sx :=
  match x with
  | L [I n; a; b; c] =>
      match slice_indices n (to_optZ a) (to_optZ b) (to_optZ c) with
      | None => L [I 0]
      | Some (s, e, st) => L [I 1; I s; I e; I st;
                              of_Zs (match slice_positions n (to_optZ a) (to_optZ b) (to_optZ c) with Some p => p | None => [] end)]
      end
  | _ => sx_err
  end.

(* read plan of one axis (reported, not binding): (n ix1 ix2) -> list of (start stop step) dataset slices *)
Definition wire_51 (x : sx) : sx :=
  match x with
  | L [I n; i1; i2] =>
      match (lk <- mk_lookup n (to_aidx i1) ;; m <- map_stage2 lk (to_aidx i2) ;; axis_plan n m) with
      | Ok (PScalar z) => L [I 1; I z]
      | Ok (PSegs l) => L [I 2; L (map (fun s => L [I (sg_start s); I (sg_stop s); I (sg_step s)]) l)]
      | Err => L [I 0]
      end
  | _ => sx_err
  end.
