(* C01 (round 5): the time axis H5DataV3.__init__ builds from what the FILE says -- resynthesis of the stored
   timestamps from the ADC sample counter, wrap handling, the error branches and the shift to mid-dump
   (h5datav3.py:222-323).  Until this round the data-set model took "stored timestamp + offset" for granted (the
   resynthesis was the identity on every fixture and was listed under "not modelled").

   MODEL ([open_v3]), statement by statement; every expression and comparison operator comes from Gen/Generated.v
   (harness/vh/items/c01.py:item_c01_v3_resynth re-translates the block on every run):
     time_scale / time_origin default to the CBF scale_factor_timestamp / sync_time    [eff_scale], [origin0]
     adc_wrap_period = 2 ** ADC_COUNTER_BITS / time_scale                              gen_v3_adc_wrap
     data_duration, first regular sensor with a longer record -> sensor_start_time     gen_v3_data_duration, [sensor_start]
     while sensor_start_time - time_origin > adc_wrap_period: time_origin += ...       [origin_steps] (closed form of the
                                                                                        loop, see origin_steps_loop)
     samples = old_scale * (t - old_origin); t' = samples / time_scale + time_origin   gen_v3_samples, gen_v3_resyn
     deltas below -adc_wrap_period / 2 get one wrap period added; cumulative sum       [unwrap]
     number of timestamps != number of data rows -> BrokenFile                         [RErr 3]
     duplicate final dump dropped; offset_to_middle_of_dump + time_offset added        tconv_v3_centroid / _start (C01)
   SPEC ([spec_v3_times], hand-written, independent of Generated.v): the file stores 48-bit sample counters
   n_i = scale * (t_i - sync); the counter of dump i has wrapped once more than that of dump i - 1 exactly when it fell
   by more than 2^47; time of dump i = (n_i + 2^48 * wraps_i) / time_scale + sync' (+ half a CBF dump unless centroid
   + time_offset). *)
From Coq Require Import ZArith QArith Qround List Bool String.
From KV Require Import Base.Sx Gen.Generated Model.DataSet.
From KV Require Model.TimeFreq.
Import ListNotations.
Open Scope Q_scope.

Definition q_wrap := @gen_v3_adc_wrap Q Qplus Qminus Qmult Qdiv inject_Z.
Definition q_duration := @gen_v3_data_duration Q Qplus Qminus Qmult Qdiv inject_Z.
Definition q_start0 := @gen_v3_sensor_start_default Q Qplus Qminus Qmult Qdiv inject_Z.
Definition q_samples := @gen_v3_samples Q Qplus Qminus Qmult Qdiv inject_Z.
Definition q_resyn := @gen_v3_resyn Q Qplus Qminus Qmult Qdiv inject_Z.
Definition q_thr := @gen_v3_wrap_threshold Q Qplus Qminus Qmult Qdiv inject_Z.

(* the comparison a ? b with the operator code found in the source *)
Definition cmpQ (code : Z) (a b : Q) : bool :=
  match code with
  | 1%Z => TimeFreq.Qltb a b
  | 2%Z => Qle_bool a b
  | 3%Z => TimeFreq.Qltb b a
  | 4%Z => Qle_bool b a
  | _ => false
  end.
Definition c_pick : Z := fst (fst gen_v3_resyn_cmps).
Definition c_loop : Z := snd (fst gen_v3_resyn_cmps).
Definition c_wraps : Z := snd gen_v3_resyn_cmps.

(* what the file says *)
Record rfile := {
  rf_ts : list Q;              (* Data/timestamps as stored *)
  rf_rows : Z;                 (* Data/correlator_data.shape[0] *)
  rf_dump : Q;                 (* SDP L0 (else CBF) dump period *)
  rf_cbf_dump : option Q;      (* CBF int_time attribute, when present *)
  rf_ref : option bool;        (* timestamp_reference attribute: absent / 'centroid' (true) / anything else (false) *)
  rf_scale : Q;                (* CBF scale_factor_timestamp *)
  rf_sync : Q;                 (* CBF sync_time *)
  rf_sens : list (Q * Q)       (* first and last timestamp of the non-empty regular sensors, in cache order *)
}.
(* what the open() call says *)
Record ropen := { ro_scale : option Q; ro_origin : option Q; ro_offset : Q }.

Definition eff_scale (f : rfile) (o : ropen) : Q := match ro_scale o with Some s => s | None => rf_scale f end.
Definition origin0 (f : rfile) (o : ropen) : Q := match ro_origin o with Some s => s | None => rf_sync f end.
Definition wrap_period (f : rfile) (o : ropen) : Q := q_wrap (eff_scale f o).
Definition duration (f : rfile) : Q := q_duration (last (rf_ts f) 0) (rf_dump f) (hd 0 (rf_ts f)).
Definition sensor_start (f : rfile) : Q :=
  match find (fun ab => cmpQ c_pick (snd ab - fst ab) (duration f)) (rf_sens f) with
  | Some ab => fst ab
  | None => q_start0
  end.

(* while sensor_start_time - time_origin > adc_wrap_period: time_origin += adc_wrap_period *)
Definition origin_continue (ss origin wrap : Q) : bool := cmpQ c_loop (ss - origin) wrap.
Definition origin_steps (ss origin wrap : Q) : Z :=
  if origin_continue ss origin wrap then (Qceiling ((ss - origin) / wrap) - 1)%Z else 0%Z.
Definition final_origin (f : rfile) (o : ropen) : Q :=
  origin0 f o + inject_Z (origin_steps (sensor_start f) (origin0 f o) (wrap_period f o)) * wrap_period f o.

Definition resyn1 (f : rfile) (o : ropen) (t : Q) : Q :=
  q_resyn (q_samples t (rf_scale f) (rf_sync f)) (eff_scale f o) (final_origin f o).

Fixpoint diffs (l : list Q) : list Q :=
  match l with
  | a :: (b :: _) as tl => (b - a) :: diffs tl
  | _ => []
  end.
Definition is_wrap (wrap d : Q) : bool := cmpQ c_wraps d (q_thr wrap).
Definition fix_delta (wrap d : Q) : Q := if is_wrap wrap d then d + wrap else d.
Fixpoint cumsum (a : Q) (ds : list Q) : list Q :=
  a :: match ds with [] => [] | d :: r => cumsum (a + d) r end.
Definition unwrap (wrap : Q) (l : list Q) : list Q :=
  match l with
  | [] => []
  | a :: _ => if existsb (is_wrap wrap) (diffs l) then cumsum a (map (fix_delta wrap) (diffs l)) else l
  end.

(* num_dumps - 1 if num_dumps > 1 and ts[-1] == ts[-2] *)
Definition drop_dup (l : list Q) : list Q :=
  if (1 <? Z.of_nat (List.length l))%Z && Qeq_bool (last l 0) (last (removelast l) 0) then removelast l else l.

Definition mid_form (f : rfile) : list (Z * Z) :=
  match rf_ref f with Some _ => tconv_v3_centroid | None => tconv_v3_start end.

Inductive rres := RErr (code : Z) | ROk (ts : list Q) (origin : Q).

Definition open_v3 (f : rfile) (o : ropen) : rres :=
  match rf_ref f, rf_cbf_dump f with
  | Some false, _ => RErr 1            (* AssertionError: unknown timestamp reference *)
  | None, None => RErr 2               (* BrokenFile: not centred and CBF dump period unknown *)
  | _, cb =>
      match rf_ts f with
      | [] => RErr 4                   (* IndexError: no dumps at all *)
      | _ =>
          let l := unwrap (wrap_period f o) (map (resyn1 f o) (rf_ts f)) in
          if negb (Z.of_nat (List.length l) =? rf_rows f)%Z then RErr 3      (* BrokenFile: counts differ *)
          else ROk (map (fun t => lin3 (mid_form f) t (match cb with Some d => d | None => 0 end) (ro_offset o))
                        (drop_dup l)) (final_origin f o)
      end
  end.

(* ------------------------------------------------------------------------------------------------ *)
(* SPEC (hand-written)                                                                              *)
Definition two48 : Q := inject_Z 281474976710656.
Definition two47 : Q := inject_Z 140737488355328.

(* the sample counter the stored timestamp stands for *)
Definition counter (f : rfile) (t : Q) : Q := rf_scale f * (t - rf_sync f).
(* true sample counts: one more wrap whenever the stored counter falls by more than half its range *)
Fixpoint true_counts (k : Z) (prev : Q) (ns : list Q) : list Q :=
  match ns with
  | [] => []
  | n :: r => let k' := if TimeFreq.Qltb (n - prev) (- two47) then (k + 1)%Z else k in
              (n + inject_Z k' * two48) :: true_counts k' n r
  end.
Definition unwrapped_counts (ns : list Q) : list Q :=
  match ns with [] => [] | n :: r => n :: true_counts 0 n r end.
(* the sync time to use: the smallest origin0 + k * wrap (k = 0, 1, ...) that is not more than one wrap period before
   the start of the sensor record *)
Definition spec_origin_ok (ss origin0 wrap origin : Q) : Prop :=
  exists k : Z, (0 <= k)%Z /\ origin == origin0 + inject_Z k * wrap /\ ss - origin <= wrap /\
                forall j : Z, (0 <= j < k)%Z -> wrap < ss - (origin0 + inject_Z j * wrap).
Definition spec_v3_times (f : rfile) (o : ropen) (origin : Q) : list Q :=
  map (fun N => N / eff_scale f o + origin) (unwrapped_counts (map (counter f) (rf_ts f))).
Definition spec_mid (f : rfile) (o : ropen) (t : Q) : Q :=
  match rf_ref f, rf_cbf_dump f with
  | None, Some d => t + (1 # 2) * d + ro_offset o
  | _, _ => t + ro_offset o
  end.

(* ------------------------------------------------------------------------------------------------ *)
(* wire 1006: [file; open] -> [[code] | [timestamps, origin], spec timestamps (before the duplicate is dropped)] *)
Definition to_optQ (x : sx) : option Q := match x with L [q] => Some (TimeFreq.to_Q q) | _ => None end.
Definition to_rfile (x : sx) : rfile :=
  match x with
  | L [ts; I rows; dp; cb; rf; sc; sy; sens] =>
      {| rf_ts := map TimeFreq.to_Q (to_list ts); rf_rows := rows; rf_dump := TimeFreq.to_Q dp; rf_cbf_dump := to_optQ cb;
         rf_ref := match rf with L [b] => Some (to_bool b) | _ => None end;
         rf_scale := TimeFreq.to_Q sc; rf_sync := TimeFreq.to_Q sy;
         rf_sens := map (fun p => match p with L [a; b] => (TimeFreq.to_Q a, TimeFreq.to_Q b) | _ => (0, 0) end) (to_list sens) |}
  | _ => {| rf_ts := []; rf_rows := 0; rf_dump := 1; rf_cbf_dump := None; rf_ref := None; rf_scale := 1; rf_sync := 0;
            rf_sens := [] |}
  end.
Definition to_ropen (x : sx) : ropen :=
  match x with
  | L [sc; og; off] => {| ro_scale := to_optQ sc; ro_origin := to_optQ og; ro_offset := TimeFreq.to_Q off |}
  | _ => {| ro_scale := None; ro_origin := None; ro_offset := 0 |}
  end.

Definition wire_1006 (x : sx) : sx :=
  match x with
  | L [f; o] =>
      let f := to_rfile f in let o := to_ropen o in
      match open_v3 f o with
      | RErr c => L [L [I c]; L []]
      | ROk ts og =>
          L [L [L (map TimeFreq.of_Q ts); TimeFreq.of_Q og];
             L (map (fun t => TimeFreq.of_Q (spec_mid f o t)) (spec_v3_times f o og))]
      end
  | _ => sx_err
  end.
