(* C10: the sensor property tables of the formats (dataset.DEFAULT_SENSOR_PROPS, SENSOR_PROPS of h5datav1/2/3 and
   visdatav4), regenerated from the source (Gen/Generated.v, definitions c10_table_default .. c10_table_v4).  sensor_to_categorical documents
   `initial_value` and `greedy_values` as TRANSFORMED values ("applies the optional transform before any comparison":
   they are compared with / inserted among transformed values), so every table entry must give them in the range of
   its transform.  Definitions only. *)
From Coq Require Import ZArith List Bool String.
From KV Require Import Base.Sx Base.Str Gen.Generated.
Import ListNotations.
Open Scope Z_scope.

Definition tok_eqb (a b : c10_tok) : bool :=
  match a, b with
  | TStr x, TStr y => String.eqb x y
  | TBool x, TBool y => Bool.eqb x y
  | TInt x, TInt y => x =? y
  | TFloat n d, TFloat n' d' => (n * d' =? n' * d)
  | TOther x, TOther y => String.eqb x y
  | _, _ => false
  end.

(* is the value token in the range of the transform?  lambda x: x not in (...) and lambda x: x > c produce bools,
   lambda a: D.get(a, dflt) produces a value of D or dflt, str produces strings; a named function is opaque *)
Definition tok_in_range (tr : c10_transform) (t : c10_tok) : bool :=
  match tr with
  | TrNone => true
  | TrNotIn _ | TrGt _ _ => match t with TBool _ => true | _ => false end
  | TrMapGet m d => match t with TStr s => mem_string s (d :: map snd m) | _ => false end
  | TrStr => match t with TStr _ => true | _ => false end
  | TrFunc _ => true
  end.

Definition greedy_of (p : c10_props) : list c10_tok := match cp_greedy p with Some g => g | None => [] end.
Definition props_transformed (p : c10_props) : bool :=
  forallb (tok_in_range (cp_transform p)) (greedy_of p) &&
  match cp_initial p with Some t => tok_in_range (cp_transform p) t | None => true end.
Definition offending (t : list c10_props) : list string :=
  map cp_key (filter (fun p => negb (props_transformed p)) t).

(* entries whose initial value is one of their greedy values: the sensors finding F14 can affect *)
Definition f14_exposed (t : list c10_props) : list string :=
  map cp_key (filter (fun p => match cp_initial p with
                               | Some i => existsb (tok_eqb i) (greedy_of p)
                               | None => false end) t).

Definition c10_all_tables : list (list c10_props) :=
  [c10_table_default; c10_table_v1; c10_table_v2; c10_table_v3; c10_table_v4].
