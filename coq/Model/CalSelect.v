(* C14: which calibration products end up APPLIED ("... expand to the documented product lists, skipping or rejecting
   missing ones as documented").

   Code followed:
     select             katdal/applycal.py calc_correction, the loop `for cal_product in cal_products:` (552-580):
                        a product is registered in the dict `corrections` only if the correction sensor of EVERY data
                        input is found (`for ... else`); a missing sensor skips THIS product (`break` out of the input
                        loop) when skip_missing_products, else the KeyError propagates;
                        final_cal_products = list(corrections.keys())  (dict: first-insertion order, no duplicates)
     sensor_available   does cache.get('Calibration/Corrections/<stream>/<type>/<inp>') succeed: _parse_cal_product
                        (rsplit('.', 1)), the virtual sensor template registered per stream by add_applycal_sensors,
                        calc_correction_per_input (known product type, product sensor present, inp in cal_input_map)
     discover           visdatav4._register_standard_cal_streams (530-564): which telstate streams become 'l1' / 'l2'
     applycal_products  visdatav4.VisibilityDataV4.__init__ 497-509: _normalise_cal_products then calc_correction *)
From Coq Require Import ZArith List Bool String Ascii.
From KV Require Import Base.Sx Base.Str Gen.Generated Model.CalInterp.
Import ListNotations.
Local Open Scope string_scope.

(* ------------------------------------------------------------------ calc_correction: the product loop *)
Section Select.
  Variable avail : string -> string -> bool.      (* product name -> input -> the correction sensor exists *)
  Variable inputs : list string.                  (* sorted(set(ravel(corrprods))) *)

  (* the inner `for inp in inputs` loop reaches its `else:` *)
  Definition product_ok (p : string) : bool := forallb (avail p) inputs.
  (* corrections[cal_product] = ... on an insertion-ordered dict *)
  Definition dict_add (acc : list string) (p : string) : list string :=
    if mem_string p acc then acc else (acc ++ [p])%list.
  (* None = KeyError *)
  Fixpoint select_from (skip : bool) (ps acc : list string) : option (list string) :=
    match ps with
    | [] => Some acc
    | p :: t => if product_ok p then select_from skip t (dict_add acc p)
                else if skip then select_from skip t acc
                else None
    end.
  Definition select (skip : bool) (ps : list string) : option (list string) := select_from skip ps [].
End Select.

(* SPEC side: a list without its repeated entries, first occurrences kept in order *)
Definition sneq (a b : string) : bool := negb (String.eqb a b).
Fixpoint dedup_first (l : list string) : list string :=
  match l with
  | [] => []
  | a :: t => a :: filter (sneq a) (dedup_first t)
  end.

(* ------------------------------------------------------------------ which correction sensors exist *)
(* str.rsplit('.', 1): None when there is no dot (ValueError in _parse_cal_product) *)
Fixpoint rsplit_dot (s : string) : option (string * string) :=
  match s with
  | EmptyString => None
  | String a t => match rsplit_dot t with
                  | Some (h, r) => Some (String a h, r)
                  | None => if Ascii.eqb a "."%char then Some (EmptyString, t) else None
                  end
  end.

(* a registered cal stream (alias 'l1' / 'l2'): its name, the inputs of cal_input_map (antlist x pol_ordering) and,
   per underlying substream, the product types whose solutions are present in telstate.  indirect_cal_product_raw
   does cache.get(substream + '_product_' + type) for EVERY substream: the product exists only if all have it. *)
Record cstream := mk_cstream { cs_name : string; cs_inputs : list string; cs_subs : list (list string) }.
Definition has_type (c : cstream) (t : string) : bool := forallb (mem_string t) (cs_subs c).
Fixpoint find_stream (s : string) (l : list cstream) : option cstream :=
  match l with
  | [] => None
  | c :: t => if String.eqb (cs_name c) s then Some c else find_stream s t
  end.
Definition sensor_available (streams : list cstream) (p inp : string) : bool :=
  match rsplit_dot p with
  | None => false
  | Some (s, t) =>
      match find_stream s streams with
      | None => false                              (* no virtual sensor template for this stream: KeyError *)
      | Some c => mem_string t cal_product_types   (* else "Unknown calibration product type" KeyError *)
                  && has_type c t                  (* get_cal_product: KeyError when telstate has no such product *)
                  && mem_string inp (cs_inputs c)  (* "No calibration solutions available for input" KeyError *)
      end
  end.

(* ------------------------------------------------------------------ stream discovery *)
(* one entry of sdp_archived_streams: name, stream_type, and for an imager stream the values of its `targets` dict *)
Record astream := mk_astream { as_name : string; as_type : string; as_targets : list string }.
(* telstate.join(stream, target + '_selfcal') *)
Definition selfcal_name (stream target : string) : string := stream ++ "_" ++ target ++ "_selfcal".
Fixpoint discover_from (l : list astream) (l1 : string) (l2 : list string) : string * list string :=
  match l with
  | [] => (l1, l2)
  | a :: t =>
      if String.eqb l1 "" && String.eqb (as_type a) "sdp.cal" then discover_from t (as_name a) l2
      else if match l2 with [] => String.eqb (as_type a) "sdp.continuum_image" | _ => false end
           then discover_from t l1 (map (selfcal_name (as_name a)) (as_targets a))
      else discover_from t l1 l2
  end.
(* (underlying L1 stream, underlying L2 substreams) *)
Definition discover (l : list astream) : string * list string :=
  let r := discover_from l "" [] in
  (if String.eqb (fst r) "" then "cal" else fst r, snd r).

(* what telstate holds about one stream name: stream_type, `targets` values, cal_input_map inputs (antlist x
   pol_ordering; [] when absent), whether center_freq / bandwidth / n_chans are all there, and the product types with
   solutions in this capture block *)
Record tstream := mk_tstream { ts_name : string; ts_type : string; ts_targets : list string;
                               ts_inputs : list string; ts_spectral : bool; ts_types : list string }.
Fixpoint find_tstream (s : string) (l : list tstream) : option tstream :=
  match l with
  | [] => None
  | c :: t => if String.eqb (ts_name c) s then Some c else find_tstream s t
  end.
Definition astream_of (tel : list tstream) (n : string) : astream :=
  match find_tstream n tel with
  | Some t => mk_astream n (ts_type t) (ts_targets t)
  | None => mk_astream n "" []
  end.
Definition types_of (tel : list tstream) (n : string) : list string :=
  match find_tstream n tel with Some t => ts_types t | None => [] end.
(* add_applycal_sensors registers a stream (returns its frequencies) iff cal_input_map is non-empty and the
   spectral attributes are there; `attrs` = the attributes of the stream named `attrs_of` *)
Definition register_one (tel : list tstream) (alias attrs_of : string) (subs : list string) : list cstream :=
  match find_tstream attrs_of tel with
  | Some t => match ts_inputs t with
              | [] => []
              | _ => if ts_spectral t then [mk_cstream alias (ts_inputs t) (map (types_of tel) subs)] else []
              end
  | None => []
  end.
(* _register_standard_cal_streams: cal_freqs keys in order l1, l2 *)
Definition registered (tel : list tstream) (archived : list string) : list cstream :=
  let d := discover (map (astream_of tel) archived) in
  (register_one tel "l1" (fst d) [fst d] ++
   match snd d with [] => [] | h :: _ => register_one tel "l2" h (snd d) end)%list.

(* ------------------------------------------------------------------ the whole request -> applied products *)
Inductive outcome := ValueErr | KeyErr | Applied (l : list string).
Definition applycal_products (r : request) (streams : list cstream) (inputs : list string) : outcome :=
  match normalise r (map cs_name streams) with
  | None => ValueErr
  | Some (l, skip) =>
      match select (sensor_available streams) inputs skip l with
      | Some f => Applied f
      | None => KeyErr
      end
  end.
(* what the documentation says, written without the loop: expand; then either drop what is missing or insist on all *)
Definition spec_applycal (r : request) (streams : list cstream) (inputs : list string) : outcome :=
  match normalise r (map cs_name streams) with
  | None => ValueErr
  | Some (l, skip) =>
      let ok := product_ok (sensor_available streams) inputs in
      if skip then Applied (dedup_first (filter ok l))
      else if forallb ok l then Applied (dedup_first l) else KeyErr
  end.

(* ------------------------------------------------------------------ wire *)
Close Scope string_scope.
Local Open Scope Z_scope.
Definition cstream_of_sx (x : sx) : cstream :=
  match x with
  | L [n; i; t] => mk_cstream (to_string n) (to_strings i) (map to_strings (to_list t))
  | _ => mk_cstream EmptyString [] []
  end.
Definition astream_of_sx (x : sx) : astream :=
  match x with
  | L [n; ty; tg] => mk_astream (to_string n) (to_string ty) (to_strings tg)
  | _ => mk_astream EmptyString EmptyString []
  end.
Definition tstream_of_sx (x : sx) : tstream :=
  match x with
  | L [n; ty; tg; i; sp; t] =>
      mk_tstream (to_string n) (to_string ty) (to_strings tg) (to_strings i) (to_bool sp) (to_strings t)
  | _ => mk_tstream EmptyString EmptyString [] [] false []
  end.
Definition sx_of_outcome (o : outcome) : sx :=
  match o with
  | ValueErr => L [I 0]
  | KeyErr => L [I 1]
  | Applied l => L [I 2; L (map of_string l)]
  end.
(* avail given extensionally: list of [product; [inputs that have a sensor]] *)
Fixpoint avail_tbl (tbl : list (string * list string)) (p inp : string) : bool :=
  match tbl with
  | [] => false
  | (q, l) :: t => if String.eqb q p then mem_string inp l else avail_tbl t p inp
  end.

Definition wire_141 (x : sx) : sx :=
  match x with
  (* calc_correction's product loop alone *)
  | L [I 0; skip; ps; inputs; tbl] =>
      let tbl := map (fun e => match e with L [q; l] => (to_string q, to_strings l) | _ => (EmptyString, []) end)
                     (to_list tbl) in
      match select (avail_tbl tbl) (to_strings inputs) (to_bool skip) (to_strings ps) with
      | Some l => L [L (map of_string l)]
      | None => L []
      end
  (* request -> applied products: [model; spec] *)
  | L [I 1; r; streams; inputs] =>
      let cs := map cstream_of_sx (to_list streams) in
      L [sx_of_outcome (applycal_products (request_of_sx r) cs (to_strings inputs));
         sx_of_outcome (spec_applycal (request_of_sx r) cs (to_strings inputs))]
  (* stream discovery *)
  | L [I 2; archived] =>
      let r := discover (map astream_of_sx (to_list archived)) in
      L [of_string (fst r); L (map of_string (snd r))]
  (* a whole data set: telstate streams + sdp_archived_streams + request -> [registered aliases; model; spec] *)
  | L [I 3; r; tel; archived; inputs] =>
      let cs := registered (map tstream_of_sx (to_list tel)) (to_strings archived) in
      L [L (map (fun c => of_string (cs_name c)) cs);
         sx_of_outcome (applycal_products (request_of_sx r) cs (to_strings inputs));
         sx_of_outcome (spec_applycal (request_of_sx r) cs (to_strings inputs))]
  | _ => sx_err
  end.
