(* C14: which calibration products end up APPLIED ("... expand to the documented product lists, skipping or rejecting
   missing ones as documented").

   Code followed:
     select             katdal/applycal.py calc_correction, the loop `for cal_product in cal_products:` (552-580):
                        a product is registered in the dict `corrections` only if the correction sensor of EVERY data
                        input is found (`for ... else`); a missing sensor skips THIS product (`break` out of the input
                        loop) when skip_missing_products, else the KeyError propagates;
                        final_cal_products = list(corrections.keys())  (dict: first-insertion order, no duplicates)
     sensor_available   does cache.get('Calibration/Corrections/<stream>/<type>/<inp>') succeed: _parse_cal_product
                        (rsplit('.', 1)), the virtual sensor template registered per stream by add_applycal_sensors,
                        calc_correction_per_input (known product type, product sensor present, inp in cal_input_map)
     discover           visdatav4._register_standard_cal_streams (530-564): which telstate streams become 'l1' / 'l2'
     applycal_products  visdatav4.VisibilityDataV4.__init__ 497-509: _normalise_cal_products then calc_correction *)
From Coq Require Import ZArith List Bool String Ascii.
From KV Require Import Base.Sx Base.Str Gen.Generated Model.CalInterp.
Import ListNotations.
Local Open Scope string_scope.

(* ------------------------------------------------------------------ calc_correction: the product loop *)
Section Select.
  Variable avail : string -> string -> bool.      (* product name -> input -> the correction sensor exists *)
  Variable inputs : list string.                  (* sorted(set(ravel(corrprods))) *)

  (* the inner `for inp in inputs` loop reaches its `else:` *)
  Definition product_ok (p : string) : bool := forallb (avail p) inputs.
  (* corrections[cal_product] = ... on an insertion-ordered dict *)
  Definition dict_add (acc : list string) (p : string) : list string :=
    if mem_string p acc then acc else (acc ++ [p])%list.
  (* None = KeyError *)
  Fixpoint select_from (skip : bool) (ps acc : list string) : option (list string) :=
    match ps with
    | [] => Some acc
    | p :: t => if product_ok p then select_from skip t (dict_add acc p)
                else if skip then select_from skip t acc
                else None
    end.
  Definition select (skip : bool) (ps : list string) : option (list string) := select_from skip ps [].
End Select.

(* SPEC side: a list without its repeated entries, first occurrences kept in order *)
Definition sneq (a b : string) : bool := negb (String.eqb a b).
Fixpoint dedup_first (l : list string) : list string :=
  match l with
  | [] => []
  | a :: t => a :: filter (sneq a) (dedup_first t)
  end.

(* ------------------------------------------------------------------ which correction sensors exist *)
(* str.rsplit('.', 1): None when there is no dot (ValueError in _parse_cal_product) *)
Fixpoint rsplit_dot (s : string) : option (string * string) :=
  match s with
  | EmptyString => None
  | String a t => match rsplit_dot t with
                  | Some (h, r) => Some (String a h, r)
                  | None => if Ascii.eqb a "."%char then Some (EmptyString, t) else None
                  end
  end.

(* a registered cal stream (alias 'l1' / 'l2'): its name, the inputs of cal_input_map (antlist x pol_ordering) and,
   per underlying substream, the product types whose solutions are present in telstate.  indirect_cal_product_raw
   does cache.get(substream + '_product_' + type) for EVERY substream: the product exists only if all have it. *)
Record cstream := mk_cstream { cs_name : string; cs_inputs : list string; cs_subs : list (list string) }.
Definition has_type (c : cstream) (t : string) : bool := forallb (mem_string t) (cs_subs c).
Fixpoint find_stream (s : string) (l : list cstream) : option cstream :=
  match l with
  | [] => None
  | c :: t => if String.eqb (cs_name c) s then Some c else find_stream s t
  end.
Definition sensor_available (streams : list cstream) (p inp : string) : bool :=
  match rsplit_dot p with
  | None => false
  | Some (s, t) =>
      match find_stream s streams with
      | None => false                              (* no virtual sensor template for this stream: KeyError *)
      | Some c => mem_string t cal_product_types   (* else "Unknown calibration product type" KeyError *)
                  && has_type c t                  (* get_cal_product: KeyError when telstate has no such product *)
                  && mem_string inp (cs_inputs c)  (* "No calibration solutions available for input" KeyError *)
      end
  end.

(* ------------------------------------------------------------------ stream discovery *)
(* one entry of sdp_archived_streams as `_relative_view(attrs, stream)` shows it: its name, its stream_type ("" = no
   such attribute) and its `targets` attribute: None = absent, Some l = the VALUES of the dict, in order *)
Record astream := mk_astream { as_name : string; as_type : string; as_targets : option (list string) }.
(* stream_attrs.get('targets', {}).values() *)
Definition targets_of (a : astream) : list string := match as_targets a with Some l => l | None => [] end.
(* telstate.join(stream, target + '_selfcal') *)
Definition selfcal_name (stream target : string) : string := stream ++ "_" ++ target ++ disc_selfcal_suffix.
Definition substreams_of (a : astream) : list string := map (selfcal_name (as_name a)) (targets_of a).
(* the guards `not l1_stream` / `not l2_streams` of the two branches, when the source has them (Gen/Generated.v) *)
Definition l1_unset (l1 : string) : bool := if disc_l1_guarded then String.eqb l1 "" else true.
Definition l2_unset (l2 : list string) : bool :=
  if disc_l2_guarded then match l2 with [] => true | _ => false end else true.
(* the walk over sdp_archived_streams: ANY list - several cal streams, several imagers, imagers with empty / absent
   targets, streams of other types, in any order *)
Fixpoint discover_from (l : list astream) (l1 : string) (l2 : list string) : string * list string :=
  match l with
  | [] => (l1, l2)
  | a :: t =>
      if l1_unset l1 && String.eqb (as_type a) disc_cal_type then discover_from t (as_name a) l2
      else if l2_unset l2 && String.eqb (as_type a) disc_image_type then discover_from t l1 (substreams_of a)
      else discover_from t l1 l2
  end.
(* (underlying L1 stream, underlying L2 substreams) *)
Definition discover (l : list astream) : string * list string :=
  let r := discover_from l "" [] in
  (if String.eqb (fst r) "" then disc_l1_default else fst r, snd r).

(* SPEC side (nothing from the source): the documented choice over the whole list of archived streams.
   L1 = the FIRST stream of type sdp.cal, 'cal' when there is none (older files);
   L2 = one <imager>_<target>_selfcal stream per self-cal target of the FIRST sdp.continuum_image stream THAT HAS
        self-cal targets - an imager that had nothing to image (`targets` empty or absent) is passed over wherever it
        stands; none when no imager has targets. *)
Definition is_cal_stream (a : astream) : bool := String.eqb (as_type a) "sdp.cal".
Definition productive_imager (a : astream) : bool :=
  String.eqb (as_type a) "sdp.continuum_image" && match as_targets a with Some (_ :: _) => true | _ => false end.
Definition spec_l1 (l : list astream) : string :=
  match filter is_cal_stream l with a :: _ => as_name a | [] => "cal" end.
Definition spec_l2 (l : list astream) : list string :=
  match filter productive_imager l with
  | a :: _ => map (fun t => as_name a ++ "_" ++ t ++ "_selfcal") (targets_of a)
  | [] => []
  end.
Definition spec_discover (l : list astream) : string * list string := (spec_l1 l, spec_l2 l).

(* what telstate holds about one stream name: stream_type, `targets` values (None = no such attribute), cal_input_map inputs (antlist x
   pol_ordering; [] when absent), whether center_freq / bandwidth / n_chans are all there, and the product types with
   solutions in this capture block *)
Record tstream := mk_tstream { ts_name : string; ts_type : string; ts_targets : option (list string);
                               ts_inputs : list string; ts_spectral : bool; ts_types : list string }.
Fixpoint find_tstream (s : string) (l : list tstream) : option tstream :=
  match l with
  | [] => None
  | c :: t => if String.eqb (ts_name c) s then Some c else find_tstream s t
  end.
Definition astream_of (tel : list tstream) (n : string) : astream :=
  match find_tstream n tel with
  | Some t => mk_astream n (ts_type t) (ts_targets t)
  | None => mk_astream n "" None
  end.
Definition types_of (tel : list tstream) (n : string) : list string :=
  match find_tstream n tel with Some t => ts_types t | None => [] end.
(* add_applycal_sensors registers a stream (returns its frequencies) iff cal_input_map is non-empty and the
   spectral attributes are there; `attrs` = the attributes of the stream named `attrs_of` *)
Definition register_one (tel : list tstream) (alias attrs_of : string) (subs : list string) : list cstream :=
  match find_tstream attrs_of tel with
  | Some t => match ts_inputs t with
              | [] => []
              | _ => if ts_spectral t then [mk_cstream alias (ts_inputs t) (map (types_of tel) subs)] else []
              end
  | None => []
  end.
(* _register_standard_cal_streams: cal_freqs keys in order l1, l2 *)
Definition registered (tel : list tstream) (archived : list string) : list cstream :=
  let d := discover (map (astream_of tel) archived) in
  (register_one tel "l1" (fst d) [fst d] ++
   match snd d with [] => [] | h :: _ => register_one tel "l2" h (snd d) end)%list.

(* SPEC side: which aliases a data set offers.  'l1' iff the documented L1 stream has a cal input map and its spectral
   attributes; 'l2' iff some imager has self-cal targets and the FIRST self-cal substream of the first such imager has
   them (add_applycal_sensors reads the attributes of l2_streams[0]) *)
Definition attrs_ok (tel : list tstream) (n : string) : bool :=
  match find_tstream n tel with
  | Some t => match ts_inputs t with [] => false | _ => ts_spectral t end
  | None => false
  end.
Definition spec_aliases (tel : list tstream) (archived : list string) : list string :=
  let l := map (astream_of tel) archived in
  ((if attrs_ok tel (spec_l1 l) then ["l1"] else []) ++
   match spec_l2 l with [] => [] | h :: _ => if attrs_ok tel h then ["l2"] else [] end)%list.

(* ------------------------------------------------------------------ the whole request -> applied products *)
Inductive outcome := ValueErr | KeyErr | Applied (l : list string).
Definition applycal_products (r : request) (streams : list cstream) (inputs : list string) : outcome :=
  match normalise r (map cs_name streams) with
  | None => ValueErr
  | Some (l, skip) =>
      match select (sensor_available streams) inputs skip l with
      | Some f => Applied f
      | None => KeyErr
      end
  end.
(* what the documentation says, written without the loop: expand; then either drop what is missing or insist on all *)
Definition spec_applycal (r : request) (streams : list cstream) (inputs : list string) : outcome :=
  match normalise r (map cs_name streams) with
  | None => ValueErr
  | Some (l, skip) =>
      let ok := product_ok (sensor_available streams) inputs in
      if skip then Applied (dedup_first (filter ok l))
      else if forallb ok l then Applied (dedup_first l) else KeyErr
  end.

(* ------------------------------------------------------------------ wire *)
Close Scope string_scope.
Local Open Scope Z_scope.
Definition cstream_of_sx (x : sx) : cstream :=
  match x with
  | L [n; i; t] => mk_cstream (to_string n) (to_strings i) (map to_strings (to_list t))
  | _ => mk_cstream EmptyString [] []
  end.
(* targets on the wire: L [] = attribute absent, L [L names] = present *)
Definition opt_strings_of_sx (x : sx) : option (list string) :=
  match x with L [tg] => Some (to_strings tg) | _ => None end.
Definition astream_of_sx (x : sx) : astream :=
  match x with
  | L [n; ty; tg] => mk_astream (to_string n) (to_string ty) (opt_strings_of_sx tg)
  | _ => mk_astream EmptyString EmptyString None
  end.
Definition tstream_of_sx (x : sx) : tstream :=
  match x with
  | L [n; ty; tg; i; sp; t] =>
      mk_tstream (to_string n) (to_string ty) (opt_strings_of_sx tg) (to_strings i) (to_bool sp) (to_strings t)
  | _ => mk_tstream EmptyString EmptyString None [] false []
  end.
Definition sx_of_outcome (o : outcome) : sx :=
  match o with
  | ValueErr => L [I 0]
  | KeyErr => L [I 1]
  | Applied l => L [I 2; L (map of_string l)]
  end.
(* avail given extensionally: list of [product; [inputs that have a sensor]] *)
Fixpoint avail_tbl (tbl : list (string * list string)) (p inp : string) : bool :=
  match tbl with
  | [] => false
  | (q, l) :: t => if String.eqb q p then mem_string inp l else avail_tbl t p inp
  end.

Definition wire_141 (x : sx) : sx :=
  match x with
  (* calc_correction's product loop alone *)
  | L [I 0; skip; ps; inputs; tbl] =>
      let tbl := map (fun e => match e with L [q; l] => (to_string q, to_strings l) | _ => (EmptyString, []) end)
                     (to_list tbl) in
      match select (avail_tbl tbl) (to_strings inputs) (to_bool skip) (to_strings ps) with
      | Some l => L [L (map of_string l)]
      | None => L []
      end
  (* request -> applied products: [model; spec] *)
  | L [I 1; r; streams; inputs] =>
      let cs := map cstream_of_sx (to_list streams) in
      L [sx_of_outcome (applycal_products (request_of_sx r) cs (to_strings inputs));
         sx_of_outcome (spec_applycal (request_of_sx r) cs (to_strings inputs))]
  (* stream discovery *)
  | L [I 2; archived] =>
      let l := map astream_of_sx (to_list archived) in
      let r := discover l in
      L [of_string (fst r); L (map of_string (snd r)); of_string (spec_l1 l); L (map of_string (spec_l2 l))]
  (* a whole data set: telstate streams + sdp_archived_streams + request ->
     [registered aliases; model; spec; documented aliases; model L1; model L2 substreams; spec L1; spec L2 substreams] *)
  | L [I 3; r; tel; archived; inputs] =>
      let tl := map tstream_of_sx (to_list tel) in
      let cs := registered tl (to_strings archived) in
      let al := map (astream_of tl) (to_strings archived) in
      L [L (map (fun c => of_string (cs_name c)) cs);
         sx_of_outcome (applycal_products (request_of_sx r) cs (to_strings inputs));
         sx_of_outcome (spec_applycal (request_of_sx r) cs (to_strings inputs));
         L (map of_string (spec_aliases tl (to_strings archived)));
         of_string (fst (discover al)); L (map of_string (snd (discover al)));
         of_string (spec_l1 al); L (map of_string (spec_l2 al))]
  | _ => sx_err
  end.
