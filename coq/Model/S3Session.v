(* C09: one S3ChunkStore OBJECT over a whole sequence of get_chunk calls.  The store carries state from one call to the
   next: the verified-bucket cache `_verified_buckets` (a positive cache: "a listing showed that this bucket exists and
   holds at least one key, so a 404 inside it is just a missing chunk"), the Retry template `self.retries` (renewed for
   every request) and the session pool.  `_verify_bucket` is modelled by INTERPRETING its statements in the order in
   which they stand in the source (Gen/Generated.v: s3_verify_steps, re-translated at every run), so that the place
   where the bucket is added to the cache relative to the checks is part of the model, not an assumption. *)
From Coq Require Import ZArith List Bool String.
From KV Require Import Base.Sx Base.Str Gen.Generated Model.S3Retry.
Import ListNotations.
Open Scope Z_scope.

(* one get_chunk call: which bucket the chunk lives in, what that bucket is like at that moment, the chunk geometry,
   the length of the bucket listing, what the server does with the object requests and with the listing requests *)
Record op := mkOp { o_id : nat; o_state : bucket; o_segs : list nat; o_blen : nat;
                    o_fs : list outcome; o_fsb : list outcome }.

Definition memN (n : nat) (l : list nat) : bool := existsb (Nat.eqb n) l.
Definition o_len (o : op) : nat := fold_right Nat.add O (o_segs o).

(* S3ChunkStore._verify_bucket, statement by statement.  vs = self._verified_buckets, listed = `response` is bound,
   m = listing requests sent so far.  Result: (exception raised | returns normally, listing requests, cache after). *)
Fixpoint run_verify (steps : list string) (cfg : config) (o : op) (vs : list nat) (listed : bool) (m : nat)
  : option err * nat * list nat :=
  match steps with
  | [] => (None, m, vs)
  | s :: t =>
      if String.eqb s "return_if_cached" then
        if memN (o_id o) vs then (None, m, vs) else run_verify t cfg o vs listed m
      else if String.eqb s "add" then run_verify t cfg o (o_id o :: vs) listed m
      else if String.eqb s "listing" then
        let '(resb, k) := request cfg PListing (o_blen o) [] (listing_script (o_state o) (o_fsb o)) in
        match resb with
        | Ok _ => run_verify t cfg o vs true (m + k)%nat
        | Err NotFound => (Some (err_of_name s3_verify_missing), (m + k)%nat, vs)   (* the bucket itself is missing *)
        | Err e => (Some e, (m + k)%nat, vs)
        end
      else if String.eqb s "raise_if_empty" then
        if listed then
          match o_state o with
          | BFull => run_verify t cfg o vs listed m                     (* `<Contents>` present *)
          | _ => (Some (err_of_name s3_verify_empty), m, vs)
          end
        else (Some Raw, m, vs)                                           (* `response` unbound: NameError *)
      else (Some Raw, m, vs)
  end.

(* get_chunk on a store whose cache is vs: (what the caller sees, cache afterwards) *)
Definition session_op (cfg : config) (vs : list nat) (o : op) : chunk_run * list nat :=
  let '(res, n) := request cfg (PChunk (o_segs o)) (o_len o) [] (o_fs o) in
  match res with
  | Err NotFound =>
      match run_verify s3_verify_steps cfg o vs false O with
      | (Some e, m, vs') => (mkRun (Err e) n m (memN (o_id o) vs'), vs')
      | (None, m, vs') => (mkRun res n m (memN (o_id o) vs'), vs')
      end
  | _ => (mkRun res n O (memN (o_id o) vs), vs)
  end.

(* the whole history of calls on one store object, starting with cache vs *)
Fixpoint session (cfg : config) (vs : list nat) (ops : list op) : list chunk_run * list nat :=
  match ops with
  | [] => ([], vs)
  | o :: t => let '(g, vs') := session_op cfg vs o in
              let '(gs, vs'') := session cfg vs' t in (g :: gs, vs'')
  end.

(* =====================================================================================
   SPEC for histories: what the property says, with no cache in sight
   ===================================================================================== *)
(* the object request of this call is answered 404 (after transient faults that fit the budget) *)
Definition obj404 (cfg : config) (o : op) : bool :=
  match spec_result (c_forcelist cfg) (o_len o) (c_retry cfg) (o_fs o) with Err NotFound => true | _ => false end.
(* the bucket listing of this call comes back and shows at least one key *)
Definition listing_shows_keys (cfg : config) (o : op) : bool :=
  match o_state o, fst (request cfg PListing (o_blen o) [] (listing_script (o_state o) (o_fsb o))) with
  | BFull, Ok _ => true
  | _, _ => false
  end.
(* EVIDENCE: somewhere in the history a 404 in bucket id was followed by a listing showing that it holds keys *)
Definition shown (cfg : config) (hist : list op) (id : nat) : bool :=
  existsb (fun o => Nat.eqb (o_id o) id && obj404 cfg o && listing_shows_keys cfg o) hist.

(* every call is judged by the single-call spec, with the FULL retry budget of the configuration, and a 404 may be
   passed on as a missing chunk only on the evidence of the history (or of this call's own listing) *)
Definition spec_op (cfg : config) (hist : list op) (o : op) : result :=
  spec_get_chunk cfg (o_len o) (o_blen o) (shown cfg hist (o_id o)) (o_state o) (o_fs o) (o_fsb o).
Fixpoint spec_session (cfg : config) (hist : list op) (ops : list op) : list result :=
  match ops with
  | [] => []
  | o :: t => spec_op cfg hist o :: spec_session cfg (hist ++ [o]) t
  end.

Definition wf_op (o : op) : Prop := Forall (fun x => wf_outcome x = true) (o_fs o).

(* =====================================================================================
   wire
   ===================================================================================== *)
(* op = (id bucket segs blen fs fsb) *)
Definition to_op (x : sx) : op :=
  match x with
  | L [I id; b; segs; I blen; fs; fsb] =>
      mkOp (Z.to_nat id) (to_bucket b) (to_nats segs) (Z.to_nat blen) (to_outcomes fs) (to_outcomes fsb)
  | _ => mkOp O BMissing [] O [] []
  end.

(* per call: (model_result obj_requests bucket_requests cache_after spec_result evidence_before) *)
Fixpoint session_wire (cfg : config) (vs : list nat) (hist : list op) (ops : list op) : list sx :=
  match ops with
  | [] => []
  | o :: t =>
      let '(g, vs') := session_op cfg vs o in
      L [of_result (g_result g); of_nat (g_obj_requests g); of_nat (g_bucket_requests g); of_nats vs';
         of_result (spec_op cfg hist o); of_bool (shown cfg hist (o_id o))] :: session_wire cfg vs' (hist ++ [o]) t
  end.

(* (cfg ops) -> one entry per call *)
Definition wire_92 (x : sx) : sx :=
  match x with
  | L [cfg; ops] => L (session_wire (to_config cfg) [] [] (map to_op (to_list ops)))
  | _ => sx_err
  end.
