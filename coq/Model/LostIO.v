(* C06, round 2: the glue around the modelled core (Model/Prune.v, Model/LostMap.v).

   1. index handling: CPython's slice.indices (unit step), dask's normalize_slice, the unit-step test and the
      `index[axis] == slice(None)` skip of chunkstore._prune_chunks (whole function, also its error branch),
      `if index:` of ChunkStore.get_dask_array, the validation of TelstateDataSource(preselect=...) and how the
      dict becomes preselect_index;
   2. the `errors` option of get_dask_array (decision chain regenerated from the source: Generated.gen_errors_mode),
      get_chunk / get_chunk_or_default / get_chunk_or_placeholder on a present / absent chunk, _default_zero and
      the PlaceholderChunk test of _apply_data_lost on the result, what ChunkStoreVisFlagsWeights asks for;
   3. the chunk store as a history of put / delete operations seen by a reader that keeps no state
      (NpyFileChunkStore.get_chunk), loads at any point of the history;
   4. datasources._upgrade_chunk_info and _align_chunk_info on the chunk_info records (shape AND chunks fields). *)
From Coq Require Import ZArith List Bool String.
From KV Require Import Base.Sx Base.Str Model.Prune Model.LostMap.
From KV Require Gen.Generated.
Import ListNotations.
Open Scope Z_scope.

(* ------------------------------------------------------------------------------------------------ *)
(* 1. index elements as a caller can write them *)
Inductive pidx :=
  | PSlice (a b s : option Z)     (* slice(a, b, s), None components allowed *)
  | PInt (z : Z)                  (* an integer index *)
  | POther.                       (* a list / array / None (newaxis): anything that is neither a slice nor an integer *)

Definition full_slice : pidx := PSlice None None None.     (* np.s_[:] *)

Definition optZ_eqb (a b : option Z) : bool :=
  match a, b with None, None => true | Some x, Some y => x =? y | _, _ => false end.
Definition step_ok (allowed : list (option Z)) (s : option Z) : bool := existsb (optZ_eqb s) allowed.

(* CPython: slice(a, b).indices(n) for a unit step (PySlice_AdjustIndices) *)
Definition py_bound (n dflt : Z) (v : option Z) : Z :=
  match v with None => dflt | Some z => if z <? 0 then Z.max (z + n) 0 else Z.min z n end.
Definition py_indices (n : Z) (a b : option Z) : Z * Z := (py_bound n 0 a, py_bound n n b).

(* dask.array.slicing.normalize_slice, positive step: start 0 -> None, stop >= dim -> None, stop < start -> start *)
Definition dask_norm (n : Z) (se : Z * Z) : option Z * option Z :=
  let '(start, stop) := se in
  let start' := if start =? 0 then None else Some start in
  let stop' := if n <=? stop then None else Some stop in
  match start', stop' with
  | Some s, Some e => (start', Some (if e <? s then s else e))
  | _, _ => (start', stop')
  end.

(* what the `for axis` loop of _prune_chunks sees: None when `index[axis] == slice(None)` (axis skipped),
   else index[axis].indices(shape[axis]) of the normalised slice *)
Definition norm_window (n : Z) (a b : option Z) : option (Z * Z) :=
  match dask_norm n (py_indices n a b) with
  | (None, None) => None
  | (a', b') => Some (py_indices n a' b')
  end.

(* normalize_index refuses more index elements than axes; _prune_chunks refuses anything but unit-step slices *)
Definition elt_ok (allowed : list (option Z)) (i : pidx) : bool :=
  match i with PSlice _ _ s => step_ok allowed s | _ => false end.
Definition prune_index_ok (ndim : nat) (index : list pidx) : bool :=
  Nat.leb (List.length index) ndim && forallb (elt_ok Generated.gen_prune_ok_steps) index.

Definition pad_index (ndim : nat) (index : list pidx) : list pidx :=
  index ++ repeat full_slice (ndim - List.length index).

Definition elt_window (n : Z) (i : pidx) : option (Z * Z) :=
  match i with PSlice a b _ => norm_window n a b | _ => None end.

(* chunkstore._prune_chunks(chunks, index): None = IndexError (ValueError for a zero step); else per axis
   (chunks', index' (None = slice(None)), offset) *)
Definition prune_chunks (chunks : list (list Z)) (index : list pidx)
  : option (list (list Z * option (Z * Z) * Z)) :=
  if prune_index_ok (List.length chunks) index then
    Some (map (fun ci => let w := elt_window (zsum (fst ci)) (snd ci) in
                         let '(cs', st, sp, off) := prune_axis (fst ci) w in
                         (cs', match w with None => None | Some _ => Some (st, sp) end, off))
              (combine chunks (pad_index (List.length chunks) index)))
  else None.

(* ChunkStore.get_dask_array(..., index=index): `if index:` prunes, `array[index]` slices.  The per-axis windows
   handed to Model.LostMap.get_dask_array; None = the call raises *)
Definition gda_windows (chunks : list (list Z)) (index : list pidx) : option (list (option (Z * Z))) :=
  match index with
  | [] => Some []
  | _ => if prune_index_ok (List.length chunks) index
         then Some (map (fun ci => elt_window (zsum (fst ci)) (snd ci)) (combine chunks index))
         else None
  end.

(* TelstateDataSource.__init__: preselect dict -> preselect_index; None = IndexError *)
Fixpoint dict_get (k : string) (d : list (string * pidx)) : option pidx :=
  match d with
  | [] => None
  | (k', v) :: t => if String.eqb k k' then Some v else dict_get k t
  end.

Definition preselect_ok (pre : list (string * pidx)) : bool :=
  forallb (fun kv => mem_string (fst kv) Generated.gen_preselect_keys) pre &&
  forallb (fun kv => elt_ok Generated.gen_preselect_ok_steps (snd kv)) pre.

Definition preselect_index (pre : list (string * pidx)) : option (list pidx) :=
  if preselect_ok pre then
    Some (match pre with
          | [] => []
          | _ => map (fun k => match dict_get k pre with Some i => i | None => full_slice end)
                     Generated.gen_preselect_axis_order
          end)
  else None.

(* the windows of one array loaded through TelstateDataSource(preselect=pre) *)
Definition source_windows (chunks : list (list Z)) (pre : list (string * pidx)) : option (list (option (Z * Z))) :=
  match preselect_index pre with None => None | Some idx => gda_windows chunks idx end.

(* SPEC side: Python's meaning of x in range(n)[a:b], stated without clamping *)
Definition py_lower (n : Z) (a : option Z) (x : Z) : Prop :=
  match a with None => True | Some z => if z <? 0 then z + n <= x else z <= x end.
Definition py_upper (n : Z) (b : option Z) (x : Z) : Prop :=
  match b with None => True | Some z => if z <? 0 then x < z + n else x < z end.
Definition py_selected (n : Z) (a b : option Z) (x : Z) : Prop := 0 <= x < n /\ py_lower n a x /\ py_upper n b x.

(* ------------------------------------------------------------------------------------------------ *)
(* 2. the errors option and the getters *)
Inductive errors_arg := EStr (s : string) | ENum (v : Z).
Inductive getter := GPlaceholder (dryrun : bool) | GRaise | GDefault (v : Z) | GBadErrors.

Definition getter_of (e : errors_arg) : getter :=
  match e with
  | EStr s => match Generated.gen_errors_mode true s with
              | 0 => GPlaceholder false | 1 => GPlaceholder true | 2 => GRaise | 4 => GDefault 0 | _ => GBadErrors
              end
  | ENum v => match Generated.gen_errors_mode false EmptyString with
              | 0 => GPlaceholder false | 1 => GPlaceholder true | 2 => GRaise | 4 => GDefault v | _ => GBadErrors
              end
  end.

(* what a block of the dask array evaluates to *)
Inductive blockval :=
  | BData                  (* the stored chunk *)
  | BPlaceholder           (* a PlaceholderChunk *)
  | BFill (v : Z)          (* np.full(shape, v) *)
  | BRaise.                (* the evaluation raises (ChunkNotFound / ValueError) *)

Definition read_block (g : getter) (present : bool) : blockval :=
  match g with
  | GPlaceholder dryrun => if Generated.gen_placeholder_asks_store dryrun && present then BData else BPlaceholder
  | GRaise => if present then BData else BRaise
  | GDefault v => if present then BData else BFill v
  | GBadErrors => BRaise
  end.

(* ChunkStoreVisFlagsWeights: errors = DATA_LOST if array == 'flags' else 'placeholder' *)
Definition vfw_errors (a : nat) : errors_arg :=
  if Nat.eqb a A_FLAGS then ENum Generated.gen_flags_missing_fill else EStr Generated.gen_other_errors.

Definition vfw_block (c : cfg) (a : nat) (J : list nat) : blockval :=
  read_block (getter_of (vfw_errors a)) (negb (c_miss c a (blk_ids (darr c a) J))).

(* isinstance(chunk, PlaceholderChunk) *)
Definition is_placeholder (b : blockval) : bool := match b with BPlaceholder => true | _ => false end.
(* value of an element of _default_zero(block) / of the block itself; None = raises *)
Definition default_zero (b : blockval) (stored : Z) : option Z :=
  match b with
  | BData => Some stored | BPlaceholder => Some Generated.gen_default_fill | BFill v => Some v | BRaise => None
  end.
Definition block_value (b : blockval) (stored : Z) : option Z :=
  match b with BData => Some stored | BFill v => Some v | _ => None end.

(* the three outputs restated on top of the getters (None = the load raises) *)
Definition io_filled (c : cfg) (a : nat) (p : list Z) : option Z :=
  let d := darr c a in
  let Jq := locs (chunks_of d) p in
  default_zero (vfw_block c a (map fst Jq)) (c_dat c a (blk_src d Jq)).

Definition io_vis (c : cfg) (p : list Z) : option Z := io_filled c A_VIS p.
Definition io_weights (c : cfg) (p : list Z) : option Z :=
  match io_filled c A_W p, io_filled c A_WC (firstn (List.length (arr_chunks c A_WC)) p) with
  | Some w, Some wc => Some (w * wc)
  | _, _ => None
  end.
Definition io_flags (c : cfg) (p : list Z) : option Z :=
  let fl := darr c A_FLAGS in
  let Iq := locs (chunks_of fl) p in
  let I := map fst Iq in
  match block_value (vfw_block c A_FLAGS I) (c_dat c A_FLAGS (blk_src fl Iq)) with
  | Some orig => Some (apply_data_lost (fun a J => is_placeholder (vfw_block c a J)) orig
                                       (lost_map_at (the_entries c) I) (map snd Iq))
  | None => None
  end.

(* ------------------------------------------------------------------------------------------------ *)
(* 3. the store as a history *)
Inductive op :=
  | Put (a : nat) (id : list Z) (ver : Z)     (* chunk (array, start coordinates) written with the values of version ver *)
  | Del (a : nat) (id : list Z).              (* chunk removed *)

Definition op_hits (o : op) (a : nat) (id : list Z) : bool :=
  match o with Put a' id' _ | Del a' id' => Nat.eqb a a' && zs_eqb id id' end.

(* what is in the store for chunk (a, id) after the history (oldest operation first): the version last written, if
   not removed since *)
Definition step (a : nat) (id : list Z) (cur : option Z) (o : op) : option Z :=
  if op_hits o a id then match o with Put _ _ v => Some v | Del _ _ => None end else cur.
Definition last_write (h : list op) (a : nat) (id : list Z) : option Z := fold_left (step a id) h None.

(* a reader without state: every request is answered from the store as it is at that moment *)
Definition hist_cfg (chunks : list (list (list Z))) (win : list (option (Z * Z)))
                    (vals : Z -> nat -> list Z -> Z) (h : list op) : cfg :=
  {| c_chunks := chunks; c_win := win;
     c_miss := fun a id => match last_write h a id with None => true | Some _ => false end;
     c_dat := fun a pos => match last_write h a (chunk_id (nth a chunks []) pos) with
                           | Some v => vals v a pos | None => 0 end |}.

(* ------------------------------------------------------------------------------------------------ *)
(* 4. chunk_info records *)
Record ainfo := { i_shape : list Z; i_chunks : list (list Z) }.

Definition info_dumps (i : ainfo) : Z := hd 0 (i_shape i).
Definition info_max_dumps (all : list ainfo) : Z := fold_right Z.max 0 (map info_dumps all).

Definition align_info_one (maxd : Z) (i : ainfo) : ainfo :=
  if Generated.gen_align_pads (info_dumps i) maxd then
    {| i_shape := maxd :: tl (i_shape i);
       i_chunks := (hd [] (i_chunks i) ++
                    repeat Generated.gen_align_phantom_size
                           (Z.to_nat (Generated.gen_align_phantom_count (info_dumps i) maxd))) :: tl (i_chunks i) |}
  else i.
Definition align_info (all : list ainfo) : list ainfo := map (align_info_one (info_max_dumps all)) all.

Fixpoint set_nth {A} (n : nat) (x : A) (l : list A) : list A :=
  match n, l with
  | O, _ :: t => x :: t
  | S n', y :: t => y :: set_nth n' x t
  | _, [] => []
  end.

(* _upgrade_chunk_info(chunk_info, {key: improved}) for a key that chunk_info has: None = ValueError *)
Definition upgrade_info (all : list ainfo) (key : nat) (improved : ainfo) : option (list ainfo) :=
  match nth_error all key with
  | None => None
  | Some orig =>
      if zs_eqb (skipn Generated.gen_upgrade_compares_shape_from (i_shape improved))
                (skipn Generated.gen_upgrade_compares_shape_from (i_shape orig))
      then Some (set_nth key improved all) else None
  end.

(* TelstateDataSource: chunk_info = _upgrade_flags(...) (when a flags stream is attached); _align_chunk_info *)
Definition source_info (l0 : list ainfo) (l1_flags : option ainfo) : option (list ainfo) :=
  match l1_flags with
  | None => Some (align_info l0)
  | Some f => match upgrade_info l0 A_FLAGS f with Some u => Some (align_info u) | None => None end
  end.

Definition info_consistent (i : ainfo) : Prop := i_shape i = map zsum (i_chunks i) /\ i_chunks i <> [].

(* ------------------------------------------------------------------------------------------------ *)
(* wire *)
Definition to_pidx (x : sx) : pidx :=
  match x with
  | L [I 0; a; b; s] => PSlice (to_optZ a) (to_optZ b) (to_optZ s)
  | L [I 1; I z] => PInt z
  | _ => POther
  end.
Definition of_pidx (i : pidx) : sx :=
  match i with
  | PSlice a b s => L [I 0; of_optZ a; of_optZ b; of_optZ s]
  | PInt z => L [I 1; I z]
  | POther => L [I 2]
  end.
Definition of_win (w : option (Z * Z)) : sx := match w with Some (lo, hi) => L [I lo; I hi] | None => L [] end.

(* (chunks index) -> _prune_chunks: per axis (chunks' index' offset), or the error value *)
Definition wire_64 (x : sx) : sx :=
  match x with
  | L [chunks; index] =>
      match prune_chunks (map to_Zs (to_list chunks)) (map to_pidx (to_list index)) with
      | Some r => L (map (fun t => let '(cs, w, off) := t in L [of_Zs cs; of_win w; I off]) r)
      | None => sx_err
      end
  | _ => sx_err
  end.

(* preselect dict ((key-codes pidx) ...) -> preselect_index, or the error value *)
Definition wire_65 (x : sx) : sx :=
  match preselect_index (map (fun kv => match kv with L [k; v] => (to_string k, to_pidx v) | _ => (EmptyString, POther) end)
                             (to_list x)) with
  | Some idx => L (map of_pidx idx)
  | None => sx_err
  end.

Definition of_blockval (b : blockval) : sx :=
  match b with BData => L [I 0] | BPlaceholder => L [I 1] | BFill v => L [I 2; I v] | BRaise => L [I 3] end.

(* (is_str s v present) -> what a block evaluates to under get_dask_array(errors=...) *)
Definition wire_66 (x : sx) : sx :=
  match x with
  | L [is_str; s; I v; present] =>
      of_blockval (read_block (getter_of (if to_bool is_str then EStr (to_string s) else ENum v)) (to_bool present))
  | _ => sx_err
  end.

Definition to_op (x : sx) : op :=
  match x with
  | L [I 1; I a; id; I v] => Put (Z.to_nat a) (to_Zs id) v
  | L [_; I a; id] => Del (Z.to_nat a) (to_Zs id)
  | _ => Del 99 []
  end.

Definition of_optZs (l : list (option Z)) : sx := L (map of_optZ l).

(* the six value lists of wire_6 for a configuration; the I/O-level outputs io_vis, io_weights, io_flags follow as options *)
Definition cfg_out (c : cfg) : sx :=
  let shape := map zsum (chunks_of (darr c A_VIS)) in
  let ps := product (map zrange shape) in
  let ents := the_entries c in
  L [of_Zs shape;
     L (map (fun a => L (map of_Zs (chunks_of (darr c a)))) [A_VIS; A_FLAGS; A_W; A_WC]);
     of_Zs (map (model_vis c) ps); of_Zs (map (spec_vis c) ps);
     of_Zs (map (model_weights c) ps); of_Zs (map (spec_weights c) ps);
     of_Zs (map (model_flags_with ents c) ps); of_Zs (map (spec_flags c) ps);
     of_optZs (map (io_vis c) ps); of_optZs (map (io_weights c) ps); of_optZs (map (io_flags c) ps)].

(* (written-chunkings index ops datas) -> a load through ChunkStoreVisFlagsWeights(preselect_index=index) after the
   history ops; datas = per version the four flat arrays; chunks past the dumps written are never in the store *)
Definition wire_67 (x : sx) : sx :=
  match x with
  | L [chunks; index; ops; datas] =>
      let orig := to_chunks3 chunks in
      let al := align orig in
      let idx := map to_pidx (to_list index) in
      let h := map to_op (to_list ops) in
      let ds := map (fun d => map to_Zs (to_list d)) (to_list datas) in
      let vals := fun v a pos => dat_of (map zsum (nth a orig [])) (nth a (nth (Z.to_nat v) ds []) []) pos in
      if forallb (fun cs => match gda_windows cs idx with Some _ => true | None => false end) al then
        match gda_windows (nth A_FLAGS al []) idx with
        | Some win => cfg_out (hist_cfg al win vals h)
        | None => sx_err
        end
      else sx_err
  | _ => sx_err
  end.

Definition to_ainfo (x : sx) : ainfo :=
  match x with L [sh; ch] => {| i_shape := to_Zs sh; i_chunks := map to_Zs (to_list ch) |} | _ => {| i_shape := []; i_chunks := [] |} end.
Definition of_ainfo (i : ainfo) : sx := L [of_Zs (i_shape i); L (map of_Zs (i_chunks i))].

(* (l0-infos l1-flags-info-or-()) -> chunk_info after _upgrade_chunk_info and _align_chunk_info, or the error value *)
Definition wire_68 (x : sx) : sx :=
  match x with
  | L [l0; l1] =>
      match source_info (map to_ainfo (to_list l0)) (match l1 with L [] => None | _ => Some (to_ainfo l1) end) with
      | Some r => L (map of_ainfo r)
      | None => sx_err
      end
  | _ => sx_err
  end.

(* (orig-values shape ((is-placeholder ((lo hi) ...)) ...)) -> _apply_data_lost(orig_flags, lost) as a flat array in C
   order; each pair of `lost` is given as (the chunk is a PlaceholderChunk?, the slices) *)
Definition wire_69 (x : sx) : sx :=
  match x with
  | L [orig; shape; lost] =>
      let sh := to_Zs shape in
      let ents : list entry :=
        map (fun e => match e with
                      | L [ph; sl] => (if to_bool ph then 1%nat else 0%nat, @nil nat,
                                       map (fun s => match s with L [I lo; I hi] => (0%nat, lo, hi) | _ => (0%nat, 0, 0) end)
                                           (to_list sl))
                      | _ => (0%nat, @nil nat, @nil piece)
                      end) (to_list lost) in
      let o := to_Zs orig in
      of_Zs (map (fun q => apply_data_lost (fun a _ => Nat.eqb a 1) (nth (Z.to_nat (lin sh q)) o 0) ents q)
                 (product (map zrange sh)))
  | _ => sx_err
  end.

(* ------------------------------------------------------------------------------------------------ *)
(* 5. a store that serves views of arrays it owns (chunkstore_dict.DictChunkStore.get_chunk): what it answers for a
   request (per axis: slice start..stop) against an array of the given shape *)
Inductive lookup_result := Found | NotFound | Malformed.     (* the chunk | ChunkNotFound | BadChunk *)

Definition dict_get_chunk (shape : list Z) (sl : list (Z * Z)) : lookup_result :=
  if existsb (fun sn => Generated.gen_dict_outside (fst (fst sn)) (snd (fst sn)) (snd sn)) (combine sl shape) then NotFound
  else if forallb (fun sn => (0 <=? fst (fst sn)) && (fst (fst sn) <=? snd (fst sn)) &&
                         ((fst (fst sn) =? snd (fst sn)) || (snd (fst sn) <=? snd sn))) (combine sl shape)
       then Found else Malformed.

(* the request for chunk j of a chunk list (Model.Prune.cstart) *)
Definition chunk_slice (cs : list Z) (j : nat) : Z * Z := (cstart cs j, cstart cs (S j)).

(* (shape ((start stop) ...)) -> 0 found / 1 not found / 2 malformed *)
Definition wire_601 (x : sx) : sx :=
  match x with
  | L [shape; sl] =>
      I (match dict_get_chunk (to_Zs shape)
                 (map (fun s => match s with L [I a; I b] => (a, b) | _ => (0, 0) end) (to_list sl)) with
         | Found => 0 | NotFound => 1 | Malformed => 2 end)
  | _ => sx_err
  end.
