(* C08: how low-level failures become the three standard chunk-store errors, which of them may be replaced by
   filler, and the temp-file protocol of NpyFileChunkStore.put_chunk.

   Model of
     - the exception classes involved (builtins, zipfile/pickle/http.client, requests, urllib3, katdal) with their
       direct bases; isinstance = reflexive-transitive closure (checked against the real __bases__ on every run);
     - ChunkStore._standard_errors (chunkstore.py): `except tuple(self._error_map)`, exact-type lookup, else the
       first key (dict order) the exception is an instance of;
     - the four error maps, translated from the source dict literals into Gen/Generated.v and resolved here;
     - get_chunk of the three back-ends (guarded low-level read, then the dtype/shape test raising BadChunk),
       get_chunk_or_default / get_chunk_or_placeholder (`except ChunkNotFound` only), put_chunk_noraise
       (`except ChunkStoreError as err: return err`);
     - ChunkStoreVisFlagsWeights: flags chunks are fetched with errors=DATA_LOST (default value), the others with
       errors='placeholder'; _apply_data_lost ORs DATA_LOST where a placeholder came back;
     - NpyFileChunkStore.put_chunk as a state machine over the file-system operations [Creat tmp; Write tmp ..;
       (Ftruncate tmp); Rename tmp final]: every call is answered by the environment (ok / process dies / error /
       SHORT write that returns a count), and the writer's reaction to a short count (retry / ignore / check) is
       translated from _write_chunk.
   Definitions only. *)
From Coq Require Import ZArith List Bool String.
From KV Require Import Base.Sx Base.Str Gen.Generated Model.Npy.
Import ListNotations.
Open Scope Z_scope.

Inductive exn :=
  | B_BaseException | B_Exception | B_OSError | B_FileNotFoundError | B_PermissionError | B_NotADirectoryError
  | B_IsADirectoryError | B_FileExistsError | B_ConnectionError | B_ConnectionRefusedError | B_ConnectionResetError | B_BrokenPipeError
  | B_ConnectionAbortedError | B_TimeoutError | B_EOFError | B_ValueError | B_UnicodeError | B_UnicodeDecodeError
  | B_LookupError | B_KeyError | B_IndexError | B_TypeError | B_AttributeError | B_MemoryError
  | B_KeyboardInterrupt | B_AssertionError | B_RuntimeError | B_NotImplementedError | Z_BadZipFile | P_PickleError
  | P_UnpicklingError | B_BlockingIOError | B_InterruptedError | B_ArithmeticError | B_OverflowError | B_SyntaxError
  | K_ChunkStoreError | K_StoreUnavailable | K_ChunkNotFound | K_BadChunk | K_S3ObjectNotFound | K_S3ServerGlitch
  | K_AuthorisationFailed | K_InvalidToken | H_HTTPException | H_IncompleteRead | H_BadStatusLine | H_RemoteDisconnected
  | U_HTTPError | R_RequestException | R_ChunkedEncodingError | J_JSONDecodeError | R_ConnectionError | R_Timeout
  | R_ConnectTimeout | R_ContentDecodingError | R_HTTPError | R_InvalidHeader | R_InvalidJSONError | R_InvalidURL
  | R_InvalidProxyURL | R_InvalidSchema | R_JSONDecodeError | R_MissingSchema | R_ProxyError | R_ReadTimeout
  | R_RetryError | R_SSLError | R_StreamConsumedError | R_TooManyRedirects | R_URLRequired | R_UnrewindableBodyError
  | U_BodyNotHttplibCompatible | U_PoolError | U_ClosedPoolError | U_TimeoutError | U_ConnectTimeoutError | U_ProtocolError
  | U_DecodeError | U_EmptyPoolError | U_FullPoolError | U_HeaderParsingError | U_RequestError | U_HostChangedError
  | U_IncompleteRead | U_InvalidChunkLength | U_InvalidHeader | U_LocationValueError | U_LocationParseError | U_MaxRetryError
  | E_MessageDefect | U_NewConnectionError | U_NameResolutionError | U_ProxyError | U_URLSchemeUnknown | U_ProxySchemeUnknown
  | U_ProxySchemeUnsupported | U_ReadTimeoutError | U_ResponseError | U_ResponseNotChunked | U_SSLError | U_TimeoutStateError
  | U_UnrewindableBodyError | T_TokenError
.

Definition all_exn : list exn :=
  [B_BaseException; B_Exception; B_OSError; B_FileNotFoundError; B_PermissionError; B_NotADirectoryError;
   B_IsADirectoryError; B_FileExistsError; B_ConnectionError; B_ConnectionRefusedError; B_ConnectionResetError; B_BrokenPipeError;
   B_ConnectionAbortedError; B_TimeoutError; B_EOFError; B_ValueError; B_UnicodeError; B_UnicodeDecodeError;
   B_LookupError; B_KeyError; B_IndexError; B_TypeError; B_AttributeError; B_MemoryError;
   B_KeyboardInterrupt; B_AssertionError; B_RuntimeError; B_NotImplementedError; Z_BadZipFile; P_PickleError;
   P_UnpicklingError; B_BlockingIOError; B_InterruptedError; B_ArithmeticError; B_OverflowError; B_SyntaxError;
   K_ChunkStoreError; K_StoreUnavailable; K_ChunkNotFound; K_BadChunk; K_S3ObjectNotFound; K_S3ServerGlitch;
   K_AuthorisationFailed; K_InvalidToken; H_HTTPException; H_IncompleteRead; H_BadStatusLine; H_RemoteDisconnected;
   U_HTTPError; R_RequestException; R_ChunkedEncodingError; J_JSONDecodeError; R_ConnectionError; R_Timeout;
   R_ConnectTimeout; R_ContentDecodingError; R_HTTPError; R_InvalidHeader; R_InvalidJSONError; R_InvalidURL;
   R_InvalidProxyURL; R_InvalidSchema; R_JSONDecodeError; R_MissingSchema; R_ProxyError; R_ReadTimeout;
   R_RetryError; R_SSLError; R_StreamConsumedError; R_TooManyRedirects; R_URLRequired; R_UnrewindableBodyError;
   U_BodyNotHttplibCompatible; U_PoolError; U_ClosedPoolError; U_TimeoutError; U_ConnectTimeoutError; U_ProtocolError;
   U_DecodeError; U_EmptyPoolError; U_FullPoolError; U_HeaderParsingError; U_RequestError; U_HostChangedError;
   U_IncompleteRead; U_InvalidChunkLength; U_InvalidHeader; U_LocationValueError; U_LocationParseError; U_MaxRetryError;
   E_MessageDefect; U_NewConnectionError; U_NameResolutionError; U_ProxyError; U_URLSchemeUnknown; U_ProxySchemeUnknown;
   U_ProxySchemeUnsupported; U_ReadTimeoutError; U_ResponseError; U_ResponseNotChunked; U_SSLError; U_TimeoutStateError;
   U_UnrewindableBodyError; T_TokenError].

Definition exn_name (e : exn) : string :=
  match e with
  | B_BaseException => "builtins.BaseException"
  | B_Exception => "builtins.Exception"
  | B_OSError => "builtins.OSError"
  | B_FileNotFoundError => "builtins.FileNotFoundError"
  | B_PermissionError => "builtins.PermissionError"
  | B_NotADirectoryError => "builtins.NotADirectoryError"
  | B_IsADirectoryError => "builtins.IsADirectoryError"
  | B_FileExistsError => "builtins.FileExistsError"
  | B_ConnectionError => "builtins.ConnectionError"
  | B_ConnectionRefusedError => "builtins.ConnectionRefusedError"
  | B_ConnectionResetError => "builtins.ConnectionResetError"
  | B_BrokenPipeError => "builtins.BrokenPipeError"
  | B_ConnectionAbortedError => "builtins.ConnectionAbortedError"
  | B_TimeoutError => "builtins.TimeoutError"
  | B_EOFError => "builtins.EOFError"
  | B_ValueError => "builtins.ValueError"
  | B_UnicodeError => "builtins.UnicodeError"
  | B_UnicodeDecodeError => "builtins.UnicodeDecodeError"
  | B_LookupError => "builtins.LookupError"
  | B_KeyError => "builtins.KeyError"
  | B_IndexError => "builtins.IndexError"
  | B_TypeError => "builtins.TypeError"
  | B_AttributeError => "builtins.AttributeError"
  | B_MemoryError => "builtins.MemoryError"
  | B_KeyboardInterrupt => "builtins.KeyboardInterrupt"
  | B_AssertionError => "builtins.AssertionError"
  | B_RuntimeError => "builtins.RuntimeError"
  | B_NotImplementedError => "builtins.NotImplementedError"
  | Z_BadZipFile => "zipfile.BadZipFile"
  | P_PickleError => "_pickle.PickleError"
  | P_UnpicklingError => "_pickle.UnpicklingError"
  | B_BlockingIOError => "builtins.BlockingIOError"
  | B_InterruptedError => "builtins.InterruptedError"
  | B_ArithmeticError => "builtins.ArithmeticError"
  | B_OverflowError => "builtins.OverflowError"
  | B_SyntaxError => "builtins.SyntaxError"
  | K_ChunkStoreError => "katdal.chunkstore.ChunkStoreError"
  | K_StoreUnavailable => "katdal.chunkstore.StoreUnavailable"
  | K_ChunkNotFound => "katdal.chunkstore.ChunkNotFound"
  | K_BadChunk => "katdal.chunkstore.BadChunk"
  | K_S3ObjectNotFound => "katdal.chunkstore_s3.S3ObjectNotFound"
  | K_S3ServerGlitch => "katdal.chunkstore_s3.S3ServerGlitch"
  | K_AuthorisationFailed => "katdal.chunkstore_s3.AuthorisationFailed"
  | K_InvalidToken => "katdal.chunkstore_s3.InvalidToken"
  | H_HTTPException => "http.client.HTTPException"
  | H_IncompleteRead => "http.client.IncompleteRead"
  | H_BadStatusLine => "http.client.BadStatusLine"
  | H_RemoteDisconnected => "http.client.RemoteDisconnected"
  | U_HTTPError => "urllib3.exceptions.HTTPError"
  | R_RequestException => "requests.exceptions.RequestException"
  | R_ChunkedEncodingError => "requests.exceptions.ChunkedEncodingError"
  | J_JSONDecodeError => "json.decoder.JSONDecodeError"
  | R_ConnectionError => "requests.exceptions.ConnectionError"
  | R_Timeout => "requests.exceptions.Timeout"
  | R_ConnectTimeout => "requests.exceptions.ConnectTimeout"
  | R_ContentDecodingError => "requests.exceptions.ContentDecodingError"
  | R_HTTPError => "requests.exceptions.HTTPError"
  | R_InvalidHeader => "requests.exceptions.InvalidHeader"
  | R_InvalidJSONError => "requests.exceptions.InvalidJSONError"
  | R_InvalidURL => "requests.exceptions.InvalidURL"
  | R_InvalidProxyURL => "requests.exceptions.InvalidProxyURL"
  | R_InvalidSchema => "requests.exceptions.InvalidSchema"
  | R_JSONDecodeError => "requests.exceptions.JSONDecodeError"
  | R_MissingSchema => "requests.exceptions.MissingSchema"
  | R_ProxyError => "requests.exceptions.ProxyError"
  | R_ReadTimeout => "requests.exceptions.ReadTimeout"
  | R_RetryError => "requests.exceptions.RetryError"
  | R_SSLError => "requests.exceptions.SSLError"
  | R_StreamConsumedError => "requests.exceptions.StreamConsumedError"
  | R_TooManyRedirects => "requests.exceptions.TooManyRedirects"
  | R_URLRequired => "requests.exceptions.URLRequired"
  | R_UnrewindableBodyError => "requests.exceptions.UnrewindableBodyError"
  | U_BodyNotHttplibCompatible => "urllib3.exceptions.BodyNotHttplibCompatible"
  | U_PoolError => "urllib3.exceptions.PoolError"
  | U_ClosedPoolError => "urllib3.exceptions.ClosedPoolError"
  | U_TimeoutError => "urllib3.exceptions.TimeoutError"
  | U_ConnectTimeoutError => "urllib3.exceptions.ConnectTimeoutError"
  | U_ProtocolError => "urllib3.exceptions.ProtocolError"
  | U_DecodeError => "urllib3.exceptions.DecodeError"
  | U_EmptyPoolError => "urllib3.exceptions.EmptyPoolError"
  | U_FullPoolError => "urllib3.exceptions.FullPoolError"
  | U_HeaderParsingError => "urllib3.exceptions.HeaderParsingError"
  | U_RequestError => "urllib3.exceptions.RequestError"
  | U_HostChangedError => "urllib3.exceptions.HostChangedError"
  | U_IncompleteRead => "urllib3.exceptions.IncompleteRead"
  | U_InvalidChunkLength => "urllib3.exceptions.InvalidChunkLength"
  | U_InvalidHeader => "urllib3.exceptions.InvalidHeader"
  | U_LocationValueError => "urllib3.exceptions.LocationValueError"
  | U_LocationParseError => "urllib3.exceptions.LocationParseError"
  | U_MaxRetryError => "urllib3.exceptions.MaxRetryError"
  | E_MessageDefect => "email.errors.MessageDefect"
  | U_NewConnectionError => "urllib3.exceptions.NewConnectionError"
  | U_NameResolutionError => "urllib3.exceptions.NameResolutionError"
  | U_ProxyError => "urllib3.exceptions.ProxyError"
  | U_URLSchemeUnknown => "urllib3.exceptions.URLSchemeUnknown"
  | U_ProxySchemeUnknown => "urllib3.exceptions.ProxySchemeUnknown"
  | U_ProxySchemeUnsupported => "urllib3.exceptions.ProxySchemeUnsupported"
  | U_ReadTimeoutError => "urllib3.exceptions.ReadTimeoutError"
  | U_ResponseError => "urllib3.exceptions.ResponseError"
  | U_ResponseNotChunked => "urllib3.exceptions.ResponseNotChunked"
  | U_SSLError => "urllib3.exceptions.SSLError"
  | U_TimeoutStateError => "urllib3.exceptions.TimeoutStateError"
  | U_UnrewindableBodyError => "urllib3.exceptions.UnrewindableBodyError"
  | T_TokenError => "tokenize.TokenError"
  end%string.

(* direct bases, in __bases__ order (object omitted) *)
Definition bases (e : exn) : list exn :=
  match e with
  | B_BaseException => []
  | B_Exception => [B_BaseException]
  | B_OSError => [B_Exception]
  | B_FileNotFoundError => [B_OSError]
  | B_PermissionError => [B_OSError]
  | B_NotADirectoryError => [B_OSError]
  | B_IsADirectoryError => [B_OSError]
  | B_FileExistsError => [B_OSError]
  | B_ConnectionError => [B_OSError]
  | B_ConnectionRefusedError => [B_ConnectionError]
  | B_ConnectionResetError => [B_ConnectionError]
  | B_BrokenPipeError => [B_ConnectionError]
  | B_ConnectionAbortedError => [B_ConnectionError]
  | B_TimeoutError => [B_OSError]
  | B_EOFError => [B_Exception]
  | B_ValueError => [B_Exception]
  | B_UnicodeError => [B_ValueError]
  | B_UnicodeDecodeError => [B_UnicodeError]
  | B_LookupError => [B_Exception]
  | B_KeyError => [B_LookupError]
  | B_IndexError => [B_LookupError]
  | B_TypeError => [B_Exception]
  | B_AttributeError => [B_Exception]
  | B_MemoryError => [B_Exception]
  | B_KeyboardInterrupt => [B_BaseException]
  | B_AssertionError => [B_Exception]
  | B_RuntimeError => [B_Exception]
  | B_NotImplementedError => [B_RuntimeError]
  | Z_BadZipFile => [B_Exception]
  | P_PickleError => [B_Exception]
  | P_UnpicklingError => [P_PickleError]
  | B_BlockingIOError => [B_OSError]
  | B_InterruptedError => [B_OSError]
  | B_ArithmeticError => [B_Exception]
  | B_OverflowError => [B_ArithmeticError]
  | B_SyntaxError => [B_Exception]
  | K_ChunkStoreError => [B_Exception]
  | K_StoreUnavailable => [B_OSError; K_ChunkStoreError]
  | K_ChunkNotFound => [B_KeyError; K_ChunkStoreError]
  | K_BadChunk => [B_ValueError; K_ChunkStoreError]
  | K_S3ObjectNotFound => [K_ChunkNotFound]
  | K_S3ServerGlitch => [K_ChunkNotFound]
  | K_AuthorisationFailed => [K_StoreUnavailable]
  | K_InvalidToken => [K_AuthorisationFailed]
  | H_HTTPException => [B_Exception]
  | H_IncompleteRead => [H_HTTPException]
  | H_BadStatusLine => [H_HTTPException]
  | H_RemoteDisconnected => [B_ConnectionResetError; H_BadStatusLine]
  | U_HTTPError => [B_Exception]
  | R_RequestException => [B_OSError]
  | R_ChunkedEncodingError => [R_RequestException]
  | J_JSONDecodeError => [B_ValueError]
  | R_ConnectionError => [R_RequestException]
  | R_Timeout => [R_RequestException]
  | R_ConnectTimeout => [R_ConnectionError; R_Timeout]
  | R_ContentDecodingError => [R_RequestException; U_HTTPError]
  | R_HTTPError => [R_RequestException]
  | R_InvalidHeader => [R_RequestException; B_ValueError]
  | R_InvalidJSONError => [R_RequestException]
  | R_InvalidURL => [R_RequestException; B_ValueError]
  | R_InvalidProxyURL => [R_InvalidURL]
  | R_InvalidSchema => [R_RequestException; B_ValueError]
  | R_JSONDecodeError => [R_InvalidJSONError; J_JSONDecodeError]
  | R_MissingSchema => [R_RequestException; B_ValueError]
  | R_ProxyError => [R_ConnectionError]
  | R_ReadTimeout => [R_Timeout]
  | R_RetryError => [R_RequestException]
  | R_SSLError => [R_ConnectionError]
  | R_StreamConsumedError => [R_RequestException; B_TypeError]
  | R_TooManyRedirects => [R_RequestException]
  | R_URLRequired => [R_RequestException]
  | R_UnrewindableBodyError => [R_RequestException]
  | U_BodyNotHttplibCompatible => [U_HTTPError]
  | U_PoolError => [U_HTTPError]
  | U_ClosedPoolError => [U_PoolError]
  | U_TimeoutError => [U_HTTPError]
  | U_ConnectTimeoutError => [U_TimeoutError]
  | U_ProtocolError => [U_HTTPError]
  | U_DecodeError => [U_HTTPError]
  | U_EmptyPoolError => [U_PoolError]
  | U_FullPoolError => [U_PoolError]
  | U_HeaderParsingError => [U_HTTPError]
  | U_RequestError => [U_PoolError]
  | U_HostChangedError => [U_RequestError]
  | U_IncompleteRead => [U_HTTPError; H_IncompleteRead]
  | U_InvalidChunkLength => [U_HTTPError; H_IncompleteRead]
  | U_InvalidHeader => [U_HTTPError]
  | U_LocationValueError => [B_ValueError; U_HTTPError]
  | U_LocationParseError => [U_LocationValueError]
  | U_MaxRetryError => [U_RequestError]
  | E_MessageDefect => [B_ValueError]
  | U_NewConnectionError => [U_ConnectTimeoutError; U_HTTPError]
  | U_NameResolutionError => [U_NewConnectionError]
  | U_ProxyError => [U_HTTPError]
  | U_URLSchemeUnknown => [U_LocationValueError]
  | U_ProxySchemeUnknown => [B_AssertionError; U_URLSchemeUnknown]
  | U_ProxySchemeUnsupported => [B_ValueError]
  | U_ReadTimeoutError => [U_TimeoutError; U_RequestError]
  | U_ResponseError => [U_HTTPError]
  | U_ResponseNotChunked => [U_ProtocolError; B_ValueError]
  | U_SSLError => [U_HTTPError]
  | U_TimeoutStateError => [U_HTTPError]
  | U_UnrewindableBodyError => [U_HTTPError]
  | T_TokenError => [B_Exception]
  end.

Definition exn_code (e : exn) : Z :=
  match e with
  | B_BaseException => 0
  | B_Exception => 1
  | B_OSError => 2
  | B_FileNotFoundError => 3
  | B_PermissionError => 4
  | B_NotADirectoryError => 5
  | B_IsADirectoryError => 6
  | B_FileExistsError => 7
  | B_ConnectionError => 8
  | B_ConnectionRefusedError => 9
  | B_ConnectionResetError => 10
  | B_BrokenPipeError => 11
  | B_ConnectionAbortedError => 12
  | B_TimeoutError => 13
  | B_EOFError => 14
  | B_ValueError => 15
  | B_UnicodeError => 16
  | B_UnicodeDecodeError => 17
  | B_LookupError => 18
  | B_KeyError => 19
  | B_IndexError => 20
  | B_TypeError => 21
  | B_AttributeError => 22
  | B_MemoryError => 23
  | B_KeyboardInterrupt => 24
  | B_AssertionError => 25
  | B_RuntimeError => 26
  | B_NotImplementedError => 27
  | Z_BadZipFile => 28
  | P_PickleError => 29
  | P_UnpicklingError => 30
  | B_BlockingIOError => 31
  | B_InterruptedError => 32
  | B_ArithmeticError => 33
  | B_OverflowError => 34
  | B_SyntaxError => 35
  | K_ChunkStoreError => 36
  | K_StoreUnavailable => 37
  | K_ChunkNotFound => 38
  | K_BadChunk => 39
  | K_S3ObjectNotFound => 40
  | K_S3ServerGlitch => 41
  | K_AuthorisationFailed => 42
  | K_InvalidToken => 43
  | H_HTTPException => 44
  | H_IncompleteRead => 45
  | H_BadStatusLine => 46
  | H_RemoteDisconnected => 47
  | U_HTTPError => 48
  | R_RequestException => 49
  | R_ChunkedEncodingError => 50
  | J_JSONDecodeError => 51
  | R_ConnectionError => 52
  | R_Timeout => 53
  | R_ConnectTimeout => 54
  | R_ContentDecodingError => 55
  | R_HTTPError => 56
  | R_InvalidHeader => 57
  | R_InvalidJSONError => 58
  | R_InvalidURL => 59
  | R_InvalidProxyURL => 60
  | R_InvalidSchema => 61
  | R_JSONDecodeError => 62
  | R_MissingSchema => 63
  | R_ProxyError => 64
  | R_ReadTimeout => 65
  | R_RetryError => 66
  | R_SSLError => 67
  | R_StreamConsumedError => 68
  | R_TooManyRedirects => 69
  | R_URLRequired => 70
  | R_UnrewindableBodyError => 71
  | U_BodyNotHttplibCompatible => 72
  | U_PoolError => 73
  | U_ClosedPoolError => 74
  | U_TimeoutError => 75
  | U_ConnectTimeoutError => 76
  | U_ProtocolError => 77
  | U_DecodeError => 78
  | U_EmptyPoolError => 79
  | U_FullPoolError => 80
  | U_HeaderParsingError => 81
  | U_RequestError => 82
  | U_HostChangedError => 83
  | U_IncompleteRead => 84
  | U_InvalidChunkLength => 85
  | U_InvalidHeader => 86
  | U_LocationValueError => 87
  | U_LocationParseError => 88
  | U_MaxRetryError => 89
  | E_MessageDefect => 90
  | U_NewConnectionError => 91
  | U_NameResolutionError => 92
  | U_ProxyError => 93
  | U_URLSchemeUnknown => 94
  | U_ProxySchemeUnknown => 95
  | U_ProxySchemeUnsupported => 96
  | U_ReadTimeoutError => 97
  | U_ResponseError => 98
  | U_ResponseNotChunked => 99
  | U_SSLError => 100
  | U_TimeoutStateError => 101
  | U_UnrewindableBodyError => 102
  | T_TokenError => 103
  end.

Definition exn_eqb (a b : exn) : bool := exn_code a =? exn_code b.

(* issubclass(a, b): a is b, or some direct base of a is a subclass of b.  Fuel = number of classes. *)
Fixpoint subclass_f (fuel : nat) (a b : exn) : bool :=
  exn_eqb a b ||
  match fuel with
  | O => false
  | S f => existsb (fun p => subclass_f f p b) (bases a)
  end.
Definition subclass (a b : exn) : bool := subclass_f (List.length all_exn) a b.
(* isinstance(e, c) for an exception whose type is e *)
Definition isinst (e c : exn) : bool := subclass e c.

(* ---------- resolving the translated tables ---------- *)
Definition exn_of_name (s : string) : option exn := find (fun e => String.eqb (exn_name e) s) all_exn.

Fixpoint resolve_map (m : list (string * string)) : option (list (exn * exn)) :=
  match m with
  | [] => Some []
  | (k, v) :: t =>
    match exn_of_name k, exn_of_name v, resolve_map t with
    | Some k', Some v', Some t' => Some ((k', v') :: t')
    | _, _, _ => None
    end
  end.
Fixpoint resolve_names (l : list string) : option (list exn) :=
  match l with
  | [] => Some []
  | s :: t => match exn_of_name s, resolve_names t with Some e, Some t' => Some (e :: t') | _, _ => None end
  end.
Definition get_map (m : list (string * string)) : list (exn * exn) :=
  match resolve_map m with Some r => r | None => [] end.
Definition get_names (l : list string) : list exn := match resolve_names l with Some r => r | None => [] end.

Inductive store := SDefault | SNpy | SDict | SS3.
Definition error_map (s : store) : list (exn * exn) :=
  match s with
  | SDefault => get_map c08_errmap_default
  | SNpy => get_map c08_errmap_npy
  | SDict => get_map c08_errmap_dict
  | SS3 => get_map c08_errmap_s3
  end.
Definition absorbed_default : list exn := get_names c08_absorbed_default.
Definition absorbed_placeholder : list exn := get_names c08_absorbed_placeholder.
Definition noraise_returned : list exn := get_names c08_noraise_returned.

(* ---------- outcomes ---------- *)
Inductive outcome (A : Type) := Ret (a : A) | Raise (e : exn).
Arguments Ret {A} a.
Arguments Raise {A} e.

(* with self._standard_errors(): <block raising e> *)
Definition standard_errors (m : list (exn * exn)) (e : exn) : exn :=
  if existsb (fun kv => isinst e (fst kv)) m then
    match find (fun kv => exn_eqb (fst kv) e) m with
    | Some kv => snd kv
    | None =>
      match find (fun kv => isinst e (fst kv)) m with
      | Some kv => snd kv
      | None => e
      end
    end
  else e.

(* what the guarded low-level read does: deliver an array (whose dtype/shape agree with the request or not),
   or raise *)
Inductive lowres := LArray (shape_ok dtype_ok : bool) | LRaise (e : exn).

Inductive chunkval := Stored | DefaultFill | Placeholder.

(* the test after decoding, `if chunk.shape != shape or chunk.dtype != dtype: raise BadChunk(...)`, as found in the
   get_chunk of each concrete store (c08_decoded_checks: class -> (attributes compared, class raised)); the abstract
   base store has no get_chunk of its own and stands for "any conforming store" (both compared, BadChunk) *)
Definition mem_str (x : string) (l : list string) : bool := existsb (String.eqb x) l.
Definition store_class (s : store) : option string :=
  match s with
  | SNpy => Some "NpyFileChunkStore"%string
  | SDict => Some "DictChunkStore"%string
  | SS3 => Some "S3ChunkStore"%string
  | SDefault => None
  end.
Definition decoded_check (s : store) : bool * bool * exn :=      (* shape compared, dtype compared, raised *)
  match store_class s with
  | None => (true, true, K_BadChunk)
  | Some c =>
    match find (fun r => String.eqb (fst r) c) c08_decoded_checks with
    | Some (_, (attrs, raised)) =>
        (mem_str "shape" attrs, mem_str "dtype" attrs,
         match exn_of_name raised with Some e => e | None => B_BaseException end)
    | None => (false, false, K_BadChunk)
    end
  end.
Definition check_decoded (s : store) (shape_ok dtype_ok : bool) : option exn :=
  let '(cs, cd, ex) := decoded_check s in
  if (cs && negb shape_ok) || (cd && negb dtype_ok) then Some ex else None.

Definition get_chunk (s : store) (lo : lowres) : outcome chunkval :=
  match lo with
  | LRaise e => Raise (standard_errors (error_map s) e)
  | LArray shape_ok dtype_ok =>
      match check_decoded s shape_ok dtype_ok with Some ex => Raise ex | None => Ret Stored end
  end.

Definition caught (l : list exn) (e : exn) : bool := existsb (isinst e) l.

Definition get_chunk_or_default (s : store) (lo : lowres) : outcome chunkval :=
  match get_chunk s lo with
  | Raise e => if caught absorbed_default e then Ret DefaultFill else Raise e
  | r => r
  end.
Definition get_chunk_or_placeholder (s : store) (lo : lowres) : outcome chunkval :=
  match get_chunk s lo with
  | Raise e => if caught absorbed_placeholder e then Ret Placeholder else Raise e
  | r => r
  end.

(* ---------- the byte-level read paths: decoder + error map ---------- *)
Definition exn_of_npyerr (e : npyerr) : exn :=
  match e with
  | EEOF => B_EOFError
  | EValue => B_ValueError
  | EIncomplete => U_MaxRetryError   (* IncompleteRead -> ProtocolError -> read retries run out (see C09) *)
  | EZip => Z_BadZipFile             (* the NpzFile branch: BadZipFile, or an object without .shape *)
  end.

(* NpyFileChunkStore.get_chunk on a store whose file for the chunk is [file] (None: no such file):
   the request is for header [want] (dtype descriptor, shape); returns the body bytes *)
Definition hdr_matches (want got : hdr) : bool * bool :=
  (if list_eq_dec Nat.eq_dec (h_shape want) (h_shape got) then true else false,
   bytes_eqb (h_descr want) (h_descr got)).

Section Reads.
  Variable parse_hdr : bytes -> option hdr.
  Definition npy_get_chunk (file : option bytes) (want : hdr) : outcome bytes :=
    match file with
    | None => Raise (standard_errors (error_map SNpy) B_FileNotFoundError)
    | Some bs =>
      match np_load parse_hdr bs with
      | Err e => Raise (standard_errors (error_map SNpy) (exn_of_npyerr e))
      | Ok (m, body) =>
        let (sok, dok) := hdr_matches want m in
        match check_decoded SNpy sok dok with Some ex => Raise ex | None => Ret body end
      end
    end.
  (* S3ChunkStore.get_chunk when every attempt receives the object bytes [bs] (status 200) *)
  Definition s3_get_chunk (bs : bytes) (want : hdr) : outcome bytes :=
    match s3_read_array parse_hdr bs with
    | Err e => Raise (standard_errors (error_map SS3) (exn_of_npyerr e))
    | Ok (m, body) =>
      let (sok, dok) := hdr_matches want m in
      match check_decoded SS3 sok dok with Some ex => Raise ex | None => Ret body end
    end.
End Reads.

(* the same read paths seen as "what the guarded block does", to be fed to get_chunk / get_chunk_or_* *)
Definition lowres_of_decode (r : res (hdr * bytes)) (want : hdr) : lowres :=
  match r with
  | Err e => LRaise (exn_of_npyerr e)
  | Ok (m, _) => let (sok, dok) := hdr_matches want m in LArray sok dok
  end.

(* ---------- loading through ChunkStoreVisFlagsWeights ---------- *)
(* one cell of the data set: the chunk of each array covering it.  flags uses get_chunk_or_default(DATA_LOST),
   the others get_chunk_or_placeholder; any exception makes the dask compute (the load) fail. *)
Inductive akind := AFlags | AOther.
(* ChunkStore.get_dask_array(..., errors=...): the if / elif chain that picks the getter and its keyword arguments,
   interpreted over the translated rows (c08_getter_selection: (test, getter), c08_getter_kwargs: (key, expression));
   a test or expression this model does not know makes the selection GUnknown (and the theorems below fail). *)
Inductive errors_arg := ErrNum | ErrStr (s : string).     (* errors=<a number such as DATA_LOST> / errors='...' *)
Inductive getter_sel := GDefault | GPlaceholder (dryrun : bool) | GGet | GValueError | GUnknown.
Definition sel_test (t : string) (a : errors_arg) : option bool :=
  if String.eqb t "errors in ('placeholder', 'dryrun')" then
    Some (match a with ErrStr s => String.eqb s "placeholder" || String.eqb s "dryrun" | ErrNum => false end)
  else if String.eqb t "errors == 'raise'" then
    Some (match a with ErrStr s => String.eqb s "raise" | ErrNum => false end)
  else if String.eqb t "isinstance(errors, str)" then
    Some (match a with ErrStr _ => true | ErrNum => false end)
  else if String.eqb t "else" then Some true
  else None.
Definition kwarg (key : string) : option string :=
  match find (fun kv => String.eqb (fst kv) key) c08_getter_kwargs with Some kv => Some (snd kv) | None => None end.
(* getter_kwargs['dryrun'] = errors == 'dryrun' *)
Definition dryrun_of (a : errors_arg) : option bool :=
  match kwarg "dryrun" with
  | Some e => if String.eqb e "errors == 'dryrun'"
              then Some (match a with ErrStr s => String.eqb s "dryrun" | ErrNum => false end) else None
  | None => None
  end.
(* getter_kwargs['default_value'] = errors: the fill value IS the errors argument *)
Definition default_is_errors : bool :=
  match kwarg "default_value" with Some e => String.eqb e "errors" | None => false end.
Definition getter_of_name (n : string) (a : errors_arg) : getter_sel :=
  if String.eqb n "self.get_chunk_or_placeholder" then
    (if String.eqb c08_placeholder_reads_unless "dryrun"
     then match dryrun_of a with Some d => GPlaceholder d | None => GUnknown end else GUnknown)
  else if String.eqb n "self.get_chunk" then GGet
  else if String.eqb n "self.get_chunk_or_default" then (if default_is_errors then GDefault else GUnknown)
  else if String.eqb n "raise" then GValueError
  else GUnknown.
Fixpoint select_getter (rows : list (string * string)) (a : errors_arg) : getter_sel :=
  match rows with
  | [] => GUnknown
  | (t, g) :: r =>
    match sel_test t a with
    | Some true => getter_of_name g a
    | Some false => select_getter r a
    | None => GUnknown
    end
  end.
Definition get_dask_array_getter (a : errors_arg) : getter_sel := select_getter c08_getter_selection a.

(* errors = DATA_LOST if array == 'flags' else 'placeholder'  (c08_vfw_errors = (name in the then-branch, string
   constant of the else-branch)); DATA_LOST is a number *)
Definition vfw_errors_arg (k : akind) : errors_arg :=
  match k with
  | AFlags => if String.eqb (fst c08_vfw_errors) "DATA_LOST" then ErrNum else ErrStr (fst c08_vfw_errors)
  | AOther => ErrStr (snd c08_vfw_errors)
  end.
Definition run_getter (g : getter_sel) (s : store) (lo : lowres) : outcome chunkval :=
  match g with
  | GDefault => get_chunk_or_default s lo
  | GPlaceholder false => get_chunk_or_placeholder s lo
  | GPlaceholder true => Ret Placeholder                   (* dryrun: the store is never read *)
  | GGet => get_chunk s lo
  | GValueError | GUnknown => Raise B_ValueError
  end.
Definition vfw_getter (k : akind) : store -> lowres -> outcome chunkval :=
  run_getter (get_dask_array_getter (vfw_errors_arg k)).
Definition is_filler (v : chunkval) : bool := match v with Stored => false | _ => true end.
(* result: per array "data_lost is set on the cell", or the first exception *)
Fixpoint vfw_load (s : store) (arrays : list (akind * lowres)) : outcome (list bool) :=
  match arrays with
  | [] => Ret []
  | (k, lo) :: t =>
    match vfw_getter k s lo with
    | Raise e => Raise e
    | Ret v => match vfw_load s t with Raise e => Raise e | Ret l => Ret (is_filler v :: l) end
    end
  end.
Definition cell_lost (flags : list bool) : bool := existsb (fun b => b) flags.

(* ---------- file-system model of NpyFileChunkStore.put_chunk ---------- *)
Definition name := list Z.
Inductive fsop :=
| Creat (n : name)                    (* open(n, O_WRONLY|O_CREAT|O_TRUNC) *)
| Write (n : name) (bs : bytes)       (* append through the descriptor opened by Creat *)
| Ftruncate (n : name) (len : nat)
| Rename (a b : name).
Definition fs := list (name * bytes).

Fixpoint lookup (n : name) (f : fs) : option bytes :=
  match f with
  | [] => None
  | (k, v) :: t => if bytes_eqb k n then Some v else lookup n t
  end.
Fixpoint remove (n : name) (f : fs) : fs :=
  match f with
  | [] => []
  | (k, v) :: t => if bytes_eqb k n then remove n t else (k, v) :: remove n t
  end.
Definition set (n : name) (v : bytes) (f : fs) : fs := (n, v) :: remove n f.

Definition apply_op (f : fs) (op : fsop) : fs :=
  match op with
  | Creat n => set n [] f
  | Write n bs => match lookup n f with Some old => set n (old ++ bs) f | None => f end
  | Ftruncate n len => match lookup n f with Some old => set n (firstn len old) f | None => f end
  | Rename a b => match lookup a f with Some v => set b v (remove a f) | None => f end
  end.
Definition run_ops (ops : list fsop) (f : fs) : fs := fold_left apply_op ops f.

Definition tmp_suffix : name := codes_of_string c08_tmp_suffix.
Definition final_suffix : name := codes_of_string c08_final_suffix.
Definition read_suffix : name := codes_of_string c08_read_suffix.
Definition tmp_name (base : name) : name := base ++ tmp_suffix.
Definition final_name (base : name) : name := base ++ final_suffix.
Definition read_name (base : name) : name := base ++ read_suffix.

(* the op list of one put_chunk: [writes] are the byte strings handed to write(2) in order; with direct_write
   the single write is padded to the allocation granularity and cut back to [size] afterwards *)
Definition put_step (base : name) (writes : list bytes) (trunc : option nat) (s : string) : list fsop :=
  if String.eqb s "write_tmp" then
    Creat (tmp_name base) :: map (Write (tmp_name base)) writes
    ++ match trunc with Some n => [Ftruncate (tmp_name base) n] | None => [] end
  else if String.eqb s "rename_tmp_final" then [Rename (tmp_name base) (final_name base)]
  else [].
Definition put_ops (base : name) (writes : list bytes) (trunc : option nat) : list fsop :=
  flat_map (put_step base writes trunc) c08_put_steps.
Definition new_content (writes : list bytes) (trunc : option nat) : bytes :=
  match trunc with Some n => firstn n (List.concat writes) | None => List.concat writes end.

(* ---- the put as a state machine driven by the environment ----
   Every system call the put issues is answered by the environment with one [event]:
     EOk        the call does what it should;
     EDie n     the process dies inside this call (a write has stored its first n bytes; other calls did nothing);
     EErr e     the call fails with the low-level exception e and has no effect;
     EShort n   a write(2) stores only the first n bytes of its buffer and RETURNS n (no exception): file-size
                limit / quota / full disk reached inside the buffer, signal during a blocking write, the 2 GiB
                cap of a single write.  (n >= length of the buffer, or a call that is not a write: same as EOk.)
   The run of a put is determined by the list of answers (one per call actually issued; when the list is used up
   every further call succeeds).  What the WRITER does with a short count is a property of the code, translated
   from the source: *)
Inductive wpolicy :=
| PRetry                      (* io.BufferedWriter / stdio: re-issue the remainder until done or write(2) raises *)
| PIgnore                     (* raw FileIO.write / os.write with the count thrown away: carry on *)
| PCheck (need : option nat). (* raise OSError when fewer than [need] bytes (None: the whole buffer) were stored,
                                 carry on otherwise *)
Inductive event := EOk | EDie (n : nat) | EErr (e : exn) | EShort (n : nat).

Record wcfg := { short_policy : wpolicy;
                 swallow_last_write_error : bool }.  (* np.save/ndarray.tofile: a failing final flush is ignored *)

Definition is_rename_next (ops : list fsop) : bool :=
  match ops with Rename _ _ :: _ => true | _ => false end.

(* outcome for the caller (None = the caller never hears back: the process died) and the file system left behind *)
Fixpoint exec (c : wcfg) (evs : list event) (ops : list fsop) (f : fs) {struct evs} : option (outcome unit) * fs :=
  match evs with
  | [] => (Some (Ret tt), run_ops ops f)
  | ev :: evs' =>
    match ops with
    | [] => (match ev with EDie _ => None | _ => Some (Ret tt) end, f)   (* dies after the last call, before returning *)
    | op :: ops' =>
      match ev with
      | EOk => exec c evs' ops' (apply_op f op)
      | EDie n => (None, match op with Write nm bs => apply_op f (Write nm (firstn n bs)) | _ => f end)
      | EErr e =>
          match op with
          | Write _ _ => if swallow_last_write_error c && is_rename_next ops'
                         then exec c evs' ops' f else (Some (Raise e), f)
          | _ => (Some (Raise e), f)
          end
      | EShort n =>
          match op with
          | Write nm bs =>
              if Nat.ltb n (List.length bs) then
                let f' := apply_op f (Write nm (firstn n bs)) in
                match short_policy c with
                | PRetry => exec c evs' (Write nm (skipn n bs) :: ops') f'
                | PIgnore => exec c evs' ops' f'
                | PCheck need =>
                    if Nat.ltb n (match need with Some m => m | None => List.length bs end)
                    then (Some (Raise B_OSError), f')
                    else exec c evs' ops' f'
                end
              else exec c evs' ops' (apply_op f op)
          | _ => exec c evs' ops' (apply_op f op)
          end
      end
    end
  end.

(* the calls the run issues, in order: (kind, requested byte count / length argument); kinds as in [of_fsop].
   Same recursion as [exec]; only used to tie the machine to strace output call by call. *)
Definition call_of (op : fsop) : Z * Z :=
  match op with
  | Creat _ => (0, 0)
  | Write _ bs => (1, Z.of_nat (List.length bs))
  | Ftruncate _ len => (2, Z.of_nat len)
  | Rename _ _ => (3, 0)
  end.
Fixpoint exec_calls (c : wcfg) (evs : list event) (ops : list fsop) {struct evs} : list (Z * Z) :=
  match evs with
  | [] => map call_of ops
  | ev :: evs' =>
    match ops with
    | [] => []
    | op :: ops' =>
      call_of op ::
      match ev with
      | EOk => exec_calls c evs' ops'
      | EDie _ => []
      | EErr _ =>
          match op with
          | Write _ _ => if swallow_last_write_error c && is_rename_next ops' then exec_calls c evs' ops' else []
          | _ => []
          end
      | EShort n =>
          match op with
          | Write nm bs =>
              if Nat.ltb n (List.length bs) then
                match short_policy c with
                | PRetry => exec_calls c evs' (Write nm (skipn n bs) :: ops')
                | PIgnore => exec_calls c evs' ops'
                | PCheck need =>
                    if Nat.ltb n (match need with Some m => m | None => List.length bs end)
                    then [] else exec_calls c evs' ops'
                end
              else exec_calls c evs' ops'
          | _ => exec_calls c evs' ops'
          end
      end
    end
  end.

(* facts about _write_chunk translated from the source:
   - the plain branch writes through np.save (ndarray.tofile ignores a failing final flush) or through a Python
     file object (which raises);
   - what the plain branch does with a short count: "retry" (buffered file object / stdio), "ignore" (raw file
     object, count discarded), "check" (count compared with the buffer length, OSError raised);
   - the direct branch compares the byte count returned by its single os.write with the chunk size [size] (the
     argument of the ftruncate that follows) before cutting the padded file back. *)
Definition flush_errors_reported : bool := negb (String.eqb c08_plain_writer "np.save").
Definition short_write_checked : bool := c08_direct_short_write_checked.
Definition plain_policy : wpolicy :=
  if String.eqb c08_plain_short_write "retry" then PRetry
  else if String.eqb c08_plain_short_write "check" then PCheck None
  else PIgnore.
Definition direct_policy (size : nat) : wpolicy := if short_write_checked then PCheck (Some size) else PIgnore.
Definition cfg_of (trunc : option nat) : wcfg :=
  match trunc with
  | None => {| short_policy := plain_policy; swallow_last_write_error := negb flush_errors_reported |}
  | Some size => {| short_policy := direct_policy size; swallow_last_write_error := false |}
  end.

(* put_chunk.  [meta_ok] = chunk_metadata accepted the chunk (shape agrees with the slices, no object dtype); it
   is evaluated before the guarded block, so BadChunk escapes unmapped.  Everything else runs inside
   `with self._standard_errors(...)`. *)
Definition put_chunk_cfg (c : wcfg) (base : name) (writes : list bytes) (trunc : option nat) (meta_ok : bool)
           (evs : list event) (f : fs) : option (outcome unit) * fs :=
  if negb meta_ok then (Some (Raise K_BadChunk), f) else
  match exec c evs (put_ops base writes trunc) f with
  | (Some (Raise e), f') => (Some (Raise (standard_errors (error_map SNpy) e)), f')
  | r => r
  end.
Definition put_chunk (base : name) (writes : list bytes) (trunc : option nat) (meta_ok : bool)
           (evs : list event) (f : fs) : option (outcome unit) * fs :=
  put_chunk_cfg (cfg_of trunc) base writes trunc meta_ok evs f.

(* the single-fault scenarios of the first version of this model, as event lists: the process dies at call k
   (inside a write: after [part] bytes), call k fails with e (a write: after a short write of [part] bytes whose
   remainder is re-issued), write k is short ([part] bytes stored) and everything afterwards succeeds *)
Inductive fault := NoFault | Crash (k : nat) (part : nat) | Fail (k : nat) (part : nat) (e : exn)
                 | Short (k : nat) (part : nat).
Definition events_of_fault (flt : fault) : list event :=
  match flt with
  | NoFault => []
  | Crash k part => repeat EOk k ++ [EDie part]
  | Fail k part e => repeat EOk k ++ (match part with O => [] | _ => [EShort part] end) ++ [EErr e]
  | Short k part => repeat EOk k ++ [EShort part]
  end.

(* put_chunk_noraise: Ret None = success reported, Ret (Some err) = error object returned, Raise = propagates *)
Definition put_chunk_noraise (base : name) (writes : list bytes) (trunc : option nat) (meta_ok : bool)
           (evs : list event) (f : fs) : option (outcome (option exn)) * fs :=
  match put_chunk base writes trunc meta_ok evs f with
  | (None, f') => (None, f')
  | (Some (Ret _), f') => (Some (Ret None), f')
  | (Some (Raise e), f') =>
      (Some (if caught noraise_returned e then Ret (Some e) else Raise e), f')
  end.

(* ---------- wire ---------- *)
Definition to_store (z : Z) : store :=
  if z =? 0 then SDefault else if z =? 1 then SNpy else if z =? 2 then SDict else SS3.
Definition of_exn (e : exn) : sx := I (exn_code e).
Definition to_exn (x : sx) : exn := nth (to_nat x) all_exn B_BaseException.
Definition of_chunkval (v : chunkval) : Z := match v with Stored => 0 | DefaultFill => 1 | Placeholder => 2 end.
Definition of_outcome_cv (o : outcome chunkval) : sx :=
  match o with Ret v => L [I 0; I (of_chunkval v)] | Raise e => L [I 1; of_exn e] end.
Definition to_lowres (x : sx) : lowres :=
  match x with
  | L [I 0; s; d] => LArray (to_bool s) (to_bool d)
  | L [I 1; e] => LRaise (to_exn e)
  | _ => LRaise B_BaseException
  end.
Definition of_outcome_bytes (o : outcome bytes) : sx :=
  match o with Ret b => L [I 0; of_Zs b] | Raise e => L [I 1; of_exn e] end.
Definition of_fs_entry (o : option bytes) : sx := match o with None => L [] | Some b => L [of_Zs b] end.
Definition to_fault (x : sx) : fault :=
  match x with
  | L [I 1; k; part] => Crash (to_nat k) (List.length (to_Zs part))
  | L [I 2; k; part; e] => Fail (to_nat k) (List.length (to_Zs part)) (to_exn e)
  | L [I 3; k; part] => Short (to_nat k) (List.length (to_Zs part))
  | _ => NoFault
  end.
Definition to_event (x : sx) : event :=
  match x with
  | L [I 1; n] => EDie (to_nat n)
  | L [I 2; e] => EErr (to_exn e)
  | L [I 3; n] => EShort (to_nat n)
  | _ => EOk
  end.
Definition of_policy (p : wpolicy) : sx :=
  match p with
  | PRetry => L [I 0]
  | PIgnore => L [I 1]
  | PCheck None => L [I 2]
  | PCheck (Some m) => L [I 2; of_nat m]
  end.
Definition of_fsop (op : fsop) : sx :=
  match op with
  | Creat n => L [I 0; of_Zs n]
  | Write n bs => L [I 1; of_Zs n; I (Z.of_nat (List.length bs))]
  | Ftruncate n len => L [I 2; of_Zs n; of_nat len]
  | Rename a b => L [I 3; of_Zs a; of_Zs b]
  end.
Definition of_report (rep : option (outcome (option exn))) : sx :=
  match rep with
  | None => L []
  | Some (Ret None) => L [I 0]
  | Some (Ret (Some e)) => L [I 1; of_exn e]
  | Some (Raise e) => L [I 2; of_exn e]
  end.
Definition to_optnat (x : sx) : option nat := match x with L [I z] => Some (Z.to_nat z) | _ => None end.

(* (1)                      -> class table: ((name codes) (bases codes)) ...            [tie of the enum]
   (2 store)                -> resolved error map ((k v) ...), absorbed lists, noraise list
   (3 store lowres)         -> (get_chunk, get_chunk_or_default, get_chunk_or_placeholder) outcomes
   (4 e c)                  -> isinst e c
   (5 file? want)           -> npy_get_chunk with the concrete header parser    ((bytes)|() , (descr fo shape))
   (6 bytes want)           -> s3_get_chunk
   (7 store ((kind lowres) ...)) -> vfw_load: (0 flags lost) | (1 exn)
   (8 base writes trunc?)   -> put_ops as (kind name arg) ...
   (9 base writes trunc? meta_ok fault old?) -> put_chunk_noraise on a file system holding [old] under the final name:
                               (report, final entry, tmp entry)  report: () died | (0) None | (1 e) returned | (2 e) raised
   (11 base writes trunc? meta_ok events old?) -> the same for a list of environment answers
                               event: (0) ok | (1 n) die | (2 e) error | (3 n) short write of n bytes
                               -> (report, final entry, tmp entry, calls issued ((kind arg) ...), short-write policy)
   (10 bytes want)          -> for every k in 0..|bytes|: the three getters of the NPY store and of the S3 store on
                               the first k bytes *)
Definition wire_81 (x : sx) : sx :=
  match x with
  | L [I 1] => L (map (fun e => L [of_string (exn_name e); L (map of_exn (bases e))]) all_exn)
  | L [I 2; I s] =>
      L [L (map (fun kv => L [of_exn (fst kv); of_exn (snd kv)]) (error_map (to_store s)));
         L (map of_exn absorbed_default); L (map of_exn absorbed_placeholder); L (map of_exn noraise_returned)]
  | L [I 3; I s; lo] =>
      let st := to_store s in let lo := to_lowres lo in
      L [of_outcome_cv (get_chunk st lo); of_outcome_cv (get_chunk_or_default st lo);
         of_outcome_cv (get_chunk_or_placeholder st lo)]
  | L [I 4; e; c] => of_bool (isinst (to_exn e) (to_exn c))
  | L [I 5; file; want] =>
      of_outcome_bytes (npy_get_chunk parse_hdr_c (match file with L [b] => Some (to_Zs b) | _ => None end) (to_hdr want))
  | L [I 6; b; want] => of_outcome_bytes (s3_get_chunk parse_hdr_c (to_Zs b) (to_hdr want))
  | L [I 7; I s; arrs] =>
      match vfw_load (to_store s)
              (map (fun a => match a with
                             | L [k; lo] => (if to_bool k then AFlags else AOther, to_lowres lo)
                             | _ => (AOther, LRaise B_BaseException) end) (to_list arrs)) with
      | Ret l => L [I 0; of_bools l; of_bool (cell_lost l)]
      | Raise e => L [I 1; of_exn e]
      end
  | L [I 8; base; writes; tr] =>
      L (map of_fsop (put_ops (to_Zs base) (map to_Zs (to_list writes)) (to_optnat tr)))
  | L [I 9; base; writes; tr; mok; flt; old] =>
      let b := to_Zs base in
      let f0 : fs := match old with L [o] => [(final_name b, to_Zs o)] | _ => [] end in
      let (rep, f') := put_chunk_noraise b (map to_Zs (to_list writes)) (to_optnat tr) (to_bool mok)
                                         (events_of_fault (to_fault flt)) f0 in
      L [of_report rep; of_fs_entry (lookup (final_name b) f'); of_fs_entry (lookup (tmp_name b) f')]
  | L [I 11; base; writes; tr; mok; evs; old] =>
      let b := to_Zs base in
      let ws := map to_Zs (to_list writes) in
      let evl := map to_event (to_list evs) in
      let f0 : fs := match old with L [o] => [(final_name b, to_Zs o)] | _ => [] end in
      let (rep, f') := put_chunk_noraise b ws (to_optnat tr) (to_bool mok) evl f0 in
      L [of_report rep; of_fs_entry (lookup (final_name b) f'); of_fs_entry (lookup (tmp_name b) f');
         L (map (fun kz => L [I (fst kz); I (snd kz)]) (exec_calls (cfg_of (to_optnat tr)) evl (put_ops b ws (to_optnat tr))));
         of_policy (short_policy (cfg_of (to_optnat tr)))]
  | L [I 10; b; want] =>
      let bs := to_Zs b in let w := to_hdr want in
      let three st lo := L [of_outcome_cv (get_chunk st lo); of_outcome_cv (get_chunk_or_default st lo);
                            of_outcome_cv (get_chunk_or_placeholder st lo)] in
      L (map (fun k => L [three SNpy (lowres_of_decode (np_load parse_hdr_c (firstn k bs)) w);
                          three SS3 (lowres_of_decode (s3_read_array parse_hdr_c (firstn k bs)) w)])
             (seq 0 (S (List.length bs))))
  | _ => sx_err
  end.
