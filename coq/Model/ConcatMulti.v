(* C19, selection clause on concatenations with SEVERAL subarrays / spectral windows.

   d.select(subarray=s, spw=w) on the concatenated data set (katdal/dataset.py:DataSet.select): the time mask is reset
   to (Observation/spw_index == w) & (Observation/subarray_index == s) -- the merged index sensors of
   Model/Concat.v --, the channel mask gets the length of spectral_windows[w], the product mask the length of
   subarrays[s].corr_products, and every product / channel criterion from then on is evaluated on THAT subarray's
   products (in their order = the columns of the data) and THAT window's channels.  Further calls that do not name
   spw / subarray again keep both; their time criteria are ANDed with the (s, w) mask at every reset of the time
   dimension.  Hence: the masks of the whole in (s, w) = C02's select (Model/Select.v) on the merged observation whose
   products / channels are those of (s, w), the time mask ANDed with [m_keep m s w].

   A part taken as a data set of its own has ONE subarray and ONE spectral window (every loader): its products /
   channels are those of ITS subarray / window value.  Subarray / window values are the ids of Model/ConcatIdent.v:
   positions in the case-wide tables of structures, so "the part's subarray is subarrays[s] of the whole" is an
   equation between ids, and it makes the two product lists literally the same table entry.  Definitions only. *)
From Coq Require Import ZArith List Bool String.
From KV Require Import Base.Sx Base.Str Base.SelSlice Model.Select Model.ConcatSel.
From KV Require Model.Categorical Model.Concat Model.ConcatIdent.
Import ListNotations.
Open Scope Z_scope.

(* what does not depend on the subarray / window (targets by global id, dump period) and the tables by value id *)
Record menv := mkMenv {
  me_targets : list target; me_half : Z; me_halfw : Z;
  me_freqs : list (list Z);                 (* channel frequencies of the spectral window with value id i *)
  me_subs : list ConcatIdent.subarray       (* the subarray with value id i: its products are the columns *)
}.
Definition env_at (E : menv) (a b : Z) : env :=
  mkEnv (me_targets E) (me_half E) (nth (Z.to_nat b) (me_freqs E) []) (me_halfw E)
        (ConcatIdent.sa_cps (nth (Z.to_nat a) (me_subs E) (ConcatIdent.mkSub [] []))).

(* select(subarray=s, spw=w): _time_keep &= (spw_index == w); _time_keep &= (subarray_index == s) *)
Definition m_keep (m : Concat.merged) (s w : Z) : option (list bool) :=
  match Concat.m_spw_index m, Concat.m_sub_index m with
  | Some cw, Some cs => Some (Concat.band (Categorical.cmp cw (fun v => v =? w)) (Categorical.cmp cs (fun v => v =? s)))
  | _, _ => None
  end.
(* spec: the dumps whose spectral window is the w-th and whose subarray is the s-th of the merged lists *)
Definition spec_keep (ps : list Concat.part) (s w : Z) : list bool :=
  map (fun ab => (fst ab =? w) && (snd ab =? s))
      (combine (Concat.spec_index Concat.p_spw ps) (Concat.spec_index Concat.p_sub ps)).

(* the subarray / window of the whole after select(subarray=s, spw=w), and of a part alone *)
Definition whole_env (E : menv) (m : Concat.merged) (s w : nat) : env :=
  env_at E (nth s (Concat.m_subs m) (-1)) (nth w (Concat.m_spws m) (-1)).
Definition sub_of (p : Concat.part) : Z := hd (-1) (Categorical.uv (Concat.p_sub p)).
Definition spw_of (p : Concat.part) : Z := hd (-1) (Categorical.uv (Concat.p_spw p)).
Definition part_env (E : menv) (p : Concat.part) : env := env_at E (sub_of p) (spw_of p).
(* the part consists of dumps of subarray s and window w of the whole *)
Definition member (m : Concat.merged) (s w : nat) (p : Concat.part) : bool :=
  (sub_of p =? nth s (Concat.m_subs m) (-1)) && (spw_of p =? nth w (Concat.m_spws m) (-1)).

Definition and_tk (k : list bool) (r : res st) : res st :=
  match r with
  | Ok s => Ok {| tk := Concat.band k (tk s); fk := fk s; bk := bk s; sel := sel s; wk := wk s; flk := flk s |}
  | Err e => Err e
  end.

(* ---------- wire ---------- *)
Definition to_menv (x : sx) : menv :=
  match x with
  | L [ts; I h; I hw; fs; subs] =>
      mkMenv (map to_target (to_list ts)) h hw (map to_Zs (to_list fs)) (map ConcatIdent.to_sub (to_list subs))
  | _ => mkMenv [] 0 0 [] []
  end.

(* the translated call, for the harness (the part's cut of a dumps= mask, shifted scan indices, local target indices) *)
Definition tr_sx (t : tr) (c : kwargs) : sx :=
  L (map (fun kv => L [of_string (fst kv);
                       match snd kv with
                       | VIdx (IxMask m) => of_bools m
                       | VScans l => L (map (fun it => match it with SIdx z => L [I 0; I z] | SName z => L [I 1; I z]
                                                       | SNot z => L [I 2; I z] end) l)
                       | VTargets l => L (map (fun it => match it with TIdx z => L [I 0; I z] | TName z => L [I 1; I z] end) l)
                       | _ => L []
                       end]) (tr_kwargs t c)).

(* one history after select(subarray=s, spw=w): the whole follows C02's chain on the (s, w) observation, its time mask
   ANDed with k; every member part follows its own chain of translated calls on its own observation *)
Fixpoint run_both_sw (k : list bool) (mo : obs) (pos : list (obs * tr)) (s : st) (ss : list st) (calls : list kwargs) : list sx :=
  match calls with
  | [] => []
  | c :: rest =>
      let r := select mo s c in
      let rs := map (fun x => select (fst (fst x)) (snd x) (tr_kwargs (snd (fst x)) c)) (combine pos ss) in
      L [L (of_model (and_tk k r)); L (map masks_sx rs); L (map (fun x => tr_sx (snd x) c) pos)] ::
      match r, zip_res rs with
      | Ok s', Some ss' => run_both_sw k mo pos s' ss' rest
      | Err ETypeError, _ => run_both_sw k mo pos s ss rest
      | _, _ => []
      end
  end.

(* (parts menv s w calls) ->
   (0 keep spec_keep members ((whole-masks (part-masks ...)) ...))  |  (8) index out of range  |  (error code) *)
Definition wire_193 (x : sx) : sx :=
  match x with
  | L [parts; envx; I s; I w; calls] =>
      let input := map Concat.to_part (to_list parts) in
      let E := to_menv envx in
      match Concat.concat_open input with
      | Concat.CErr c => L [I (Concat.err_code c)]
      | Concat.COk m =>
          if (s <? 0) || (Z.of_nat (List.length (Concat.m_subs m)) <=? s) || (w <? 0)
             || (Z.of_nat (List.length (Concat.m_spws m)) <=? w)
          then L [I 8]                                   (* IndexError (negative: not modelled) *)
          else
          let e := whole_env E m (Z.to_nat s) (Z.to_nat w) in
          let orig := sorted_input input in
          match merged_obs e m, m_keep m s w with
          | Some mo, Some k =>
              let mem := map (member m (Z.to_nat s) (Z.to_nat w)) orig in
              (* members on their own observation; the others (all their dumps are deselected) on the whole's *)
              let pos := combine (map (fun p => part_obs (if member m (Z.to_nat s) (Z.to_nat w) p then part_env E p else e) p) orig)
                                 (trs_of (Concat.m_cat m) orig) in
              L [I 0; of_bools k; of_bools (spec_keep orig s w); of_bools mem;
                 L (run_both_sw k mo pos (init mo) (map (fun x => init (fst x)) pos) (map to_kwargs (to_list calls)))]
          | _, _ => L [I 9]
          end
      end
  | _ => sx_err
  end.
