(* C12: the public entry points SensorCache.get(name, select, extract, **kw) / cache[name] / _set_keep with EVERYTHING
   around the modelled core (Model/SensorCache.v `get`): the general time selection `keep` (Model/SensorKeep.v), the
   virtual-sensor templates tried in dict order (Model/SensorTmpl.v) and the katstore fallback
   (get_sensor_from_katstore: identifier test, query window, name filter, "no data" KeyError).  Definitions only.

   Statement order mirrored (Generated.sensor_get_steps, regenerated from SensorCache.get at every run):
   select-needs-extract, raw, virtual-templates-in-order, store-if-truthy, KeyError, extract-getter-and-cache,
   select-by-keep. *)
From Coq Require Import ZArith QArith List Bool String Ascii.
From KV Require Import Base.Sx Base.Str Gen.Generated Model.Interp Model.SensorCache Model.SensorKeep Model.SensorTmpl.
Import ListNotations.
Local Open Scope Q_scope.

(* one record of the katstore answer: rec['sensor'], rec['value_time'], rec['value'], rec['status'] *)
Record krec := mkK { k_sensor : string; k_t : Q; k_v : Q; k_st : string }.
Record query := mkQy { q_name : string; q_start : Q; q_end : Q }.

Record xcache := mkX {
  x_c : cache;                    (* raw entries, dump timestamps, property map, getters (c_keep / c_virt unused) *)
  x_keep : keep;                  (* self.keep *)
  x_tmpl : list (list tseg);      (* keys of self.virtual, parsed, in dict order *)
  x_dp : Q;                       (* self.dump_period *)
  x_store : option string;        (* self.store *)
  x_srv : list krec;              (* ENVIRONMENT: what the sensor store holds *)
  x_log : list query }.           (* queries sent to the store, most recent first *)

Definition with_c (x : xcache) (c : cache) : xcache :=
  mkX c (x_keep x) (x_tmpl x) (x_dp x) (x_store x) (x_srv x) (x_log x).
Definition with_xkeep (x : xcache) (k : keep) : xcache :=
  mkX (x_c x) k (x_tmpl x) (x_dp x) (x_store x) (x_srv x) (x_log x).
Definition with_log (x : xcache) (l : list query) : xcache :=
  mkX (x_c x) (x_keep x) (x_tmpl x) (x_dp x) (x_store x) (x_srv x) l.

(* `if self.store:` - None and the empty string are falsy *)
Definition store_active (s : option string) : bool :=
  match s with Some EmptyString => false | Some _ => true | None => false end.

(* str.isidentifier on ASCII names *)
Definition is_identifier (name : string) : bool :=
  match list_ascii_of_string name with
  | [] => false
  | c :: t => is_ident_start c && forallb is_word t
  end.

(* start_time = self.timestamps[0] - self.dump_period - 600; end_time = self.timestamps[-1] + self.dump_period + 60
   (the two constants are regenerated from the source) *)
Definition store_window (ts : list Q) (dp : Q) : option (Q * Q) :=
  match ts with
  | [] => None                                    (* IndexError *)
  | t0 :: _ => Some (t0 - dp - inject_Z katstore_before, List.last ts t0 + dp + inject_Z katstore_after)
  end.

(* ENVIRONMENT (the test double does exactly this): the store answers with the records of every sensor whose name
   STARTS WITH the requested name and whose sample time lies in the closed window *)
Definition srv_answer (srv : list krec) (name : string) (s e : Q) : list krec :=
  filter (fun r => String.prefix name (k_sensor r) && Qle_bool s (k_t r) && Qle_bool (k_t r) e) srv.

(* samples = [(rec['value_time'], rec['value'], rec['status']) for rec in sensor_data if rec['sensor'] == name] *)
Definition store_samples (answer : list krec) (name : string) : list sample :=
  map (fun r => mkS (k_t r) (k_v r) (k_st r)) (filter (fun r => String.eqb (k_sensor r) name) answer).

Inductive xres :=
| XPlain (r : res)                (* unselected result (array, categorical data, getter) or an error *)
| XSel (k : kres qn).             (* sensor_data[self.keep] of a numeric sensor *)

(* `return sensor_data[self.keep] if select else sensor_data` *)
Definition post_select (k : keep) (select : bool) (r : res) : xres :=
  if select then match r with RVals l => XSel (apply_keep k l) | _ => XPlain r end else XPlain r.

Section Api.
Variable vf : Z -> nat -> list (list qn) -> list Q -> list qn.

Definition core (c : cache) (virt : list vsensor) : cache :=
  mkC (c_raw c) (c_ts c) (c_keep c) (c_props c) virt (c_store c).

(* the modelled core is always called UNSELECTED; the selection is applied afterwards with the general keep *)
Definition core_get (c : cache) (virt : list vsensor) (name : string) (extract : bool) (kw : props) : cache * res :=
  let '(c', r) := get vf false 1 (core c virt) name false extract kw in (core c' [], r).

Definition get_x (x : xcache) (name : string) (select extract : bool) (kw : props)
  : xcache * xres * option (nat * bnd) :=
  if select && negb extract then (x, XPlain RErrValue, None) else
  let c := x_c x in
  match r_lookup name (c_raw c) with
  | Some _ =>
      let '(c', r) := core_get c [] name extract kw in
      (with_c x c', post_select (x_keep x) select r, None)
  | None =>
      match resolve (x_tmpl x) name with
      | Some (tid, b) =>
          (* create_sensor(self, name, **match.groupdict()): the function of template tid, stores under `name` *)
          let '(c', r) := core_get c [mkV [name] [] (Z.of_nat tid)] name extract kw in
          (with_c x c', post_select (x_keep x) select r, Some (tid, b))
      | None =>
          if store_active (x_store x) then
            match store_window (c_ts c) (x_dp x) with
            | None => (x, XPlain RErrOther, None)
            | Some (s, e) =>
                if negb (is_identifier name) then (x, XPlain RErrKey, None) else
                let x1 := with_log x (mkQy name s e :: x_log x) in
                match store_samples (srv_answer (x_srv x) name s e) name with
                | [] => (x1, XPlain RErrKey, None)
                | smp =>
                    (* a fresh RecordSensorGetter with a status column, not (yet) entered in the cache *)
                    let gid := List.length (c_store c) in
                    let c1 := mkC (r_set name (ERaw gid) (c_raw c)) (c_ts c) (c_keep c) (c_props c) []
                                  (c_store c ++ [mkG DFloat true smp]) in
                    let '(c2, r) := core_get c1 [] name extract kw in
                    (* only an EXTRACTED result is stored under the name *)
                    let c3 := if extract then c2 else with_raw c2 (r_del name (c_raw c2)) in
                    (with_c x1 c3, post_select (x_keep x) select r, None)
                end
            end
          else (x, XPlain RErrKey, None)
      end
  end.

Inductive xop :=
| XGet (name : string) (select extract : bool) (kw : props)
| XItem (name : string)                       (* cache[name] = get(name, select=True) *)
| XSetKeep (k : option keep).                 (* _set_keep(keep): None leaves the selection alone *)

Definition xstep (x : xcache) (o : xop) : xcache * xres * option (nat * bnd) :=
  match o with
  | XGet n s e kw => get_x x n s e kw
  | XItem n => get_x x n sensor_getitem_select sensor_get_extract_default p_empty
  | XSetKeep None => (x, XPlain ROk, None)
  | XSetKeep (Some k) => (with_xkeep x k, XPlain ROk, None)
  end.

Fixpoint xrun (x : xcache) (ops : list xop) : xcache * list (xres * option (nat * bnd)) :=
  match ops with
  | [] => (x, [])
  | o :: t => let '(x1, r, cr) := xstep x o in let '(x2, rs) := xrun x1 t in (x2, (r, cr) :: rs)
  end.
End Api.

(* ------------------------------------------------------------------ wire *)
(* the virtual sensor functions used by the correspondence (the theorems hold for every vf): the function of
   template tid stores (tid + 1) * timestamps *)
Definition api_vf (fid : Z) (k : nat) (vals : list (list qn)) (ts : list Q) : list qn :=
  map (fun t => Some (inject_Z (fid + 1) * t)) ts.

Definition to_keep (x : sx) : keep :=
  match x with
  | L [I 0%Z; m] => KpMask (to_bools m)
  | L [I 1%Z; a; b; s] => KpSlice (to_optZ a) (to_optZ b) (to_optZ s)
  | L [I 2%Z; I i] => KpInt i
  | L [I 3%Z; l] => KpIdx (to_Zs l)
  | _ => keep_default
  end.
Definition of_kres (k : kres qn) : sx :=
  match k with
  | KrVals l => L [I 0%Z; L (map of_qn l)]
  | KrScalar a => L [I 1%Z; of_qn a]
  | KrIndexErr => L [I 2%Z]
  | KrValueErr => L [I 3%Z]
  end.
Definition to_krec (x : sx) : krec :=
  match x with
  | L [n; t; v; st] => mkK (to_string n) (to_Q t) (to_Q v) (to_string st)
  | _ => mkK ""%string 0 0 ""%string
  end.
Definition to_xop (x : sx) : xop :=
  match x with
  | L [I 0%Z; n; s; e; kw] => XGet (to_string n) (to_bool s) (to_bool e) (to_props kw)
  | L [I 6%Z; n] => XItem (to_string n)
  | L [I 3%Z; L [k]] => XSetKeep (Some (to_keep k))
  | _ => XSetKeep None
  end.
Definition of_xres (r : xres * option (nat * bnd)) : sx :=
  L [match fst r with XPlain p => L [I 0%Z; of_res p] | XSel k => L [I 1%Z; of_kres k] end;
     match snd r with Some (i, b) => L [of_nat i; of_bnd b] | None => L [] end].
Definition of_query (q : query) : sx := L [of_string (q_name q); of_Q (q_start q); of_Q (q_end q)].

(* (1 cache keep templates dump_period store server ops)
     cache as in wire_12; store = () for None or (string); server = ((sensor time value status) ...)
   -> (0) when a template is outside the modelled subset, else
      (1 (results...) (queries, oldest first) (final raw kinds) (final stores)) *)
Definition wire_124 (x : sx) : sx :=
  match x with
  | L [I 1%Z; c; k; ts; dp; st; srv; ops] =>
      match parse_all (to_strings ts) with
      | None => L [I 0%Z]
      | Some segs =>
          let x0 := mkX (core (to_cache c) []) (to_keep k) segs (to_Q dp) (to_opt to_string st)
                        (map to_krec (to_list srv)) [] in
          let '(x1, rs) := xrun api_vf x0 (map to_xop (to_list ops)) in
          L [I 1%Z; L (map of_xres rs); L (map of_query (rev (x_log x1))); of_rawkeys (x_c x1);
             of_store (c_store (x_c x1))]
      end
  | _ => sx_err
  end.
