(* C20 (extension): the remaining lazily initialised / shared mutable sites reachable from the accesses the property
   lists, each as an instance of the generic guarded object (Model/Guarded.v) or of the pool (Model/LazyInit.v):

   A. SensorCache with virtual sensors: a memoised DAG.  `get name` = look the name up in the cache; on a miss create it:
      a virtual-sensor function fetches its inputs with nested cache.get calls (re-entrant lock), computes, stores the
      result with cache[name] = ... and returns it; a raw sensor is extracted and stored.  Executed by a stack machine,
      one source line per step.
   B. the wildcard property map (SensorCache._get_props on self.props; ConcatenatedSensorCache.get on its merged map):
      insert the sensor's own entry, then iterate over the whole dict -- a dict that changes size during the iteration
      raises RuntimeError.
   C. S3ChunkStore._verified_buckets: an UNLOCKED test / request / add on a set (statement order TRANSLATED).
   D. the session pool at request level: a request borrows ONE session for all its attempts, keeps it while it sleeps
      between retries, returns it on success and (as `_Pool.__call__` is written: no try/finally) drops it when the
      request fails. *)
From Coq Require Import List Arith Bool ZArith String.
From KV Require Import Base.Sx Gen.Generated Model.LazyInit Model.TaskGraph Model.Guarded.
Import ListNotations.
Close Scope Z_scope.
Open Scope nat_scope.

(* ================================================================================================================ *)
(* A. sensor cache with virtual sensors                                                                              *)
(* ================================================================================================================ *)
Section Memo.
Variable V : Type.
Variable g : graph V.             (* node k: the names it is computed from (t_deps) and the computation (t_fn);
                                     a raw sensor is a node without inputs (its function of nothing = the extraction) *)
Variable virt : nat -> bool.      (* created by a virtual-sensor function (stores through cache[name] = ..., i.e. takes the lock again) *)
Variable reentrant : bool.        (* kind of SensorCache._lock, from the source (Generated.sensor_lock_kind) *)
Variable lookup_first : bool.     (* SensorCache.get tries self._raw[name] BEFORE the virtual templates (Generated) *)
Variable want : nat -> nat.       (* the name thread t asks for *)

Record mshared := mkM { m_cache : vmap V; m_count : nat -> nat }.       (* m_count: ghost, how often a name was created *)
Inductive frame := Fr (k : nat) (todo : list nat) (got : list V).
Inductive mode :=
  | Lookup (d : nat)                                   (* with self._lock: sensor_data = self._raw[name] *)
  | Create (k : nat) (todo : list nat) (got : list V)  (* inside create_sensor(self, name): inputs still to fetch / fetched *)
  | Deliver (d : nat) (v : V)                          (* return sensor_data *)
  | Raised.                                            (* KeyError: unknown sensor *)
Record mlocal := mkML { m_mode : mode; m_stack : list frame }.

Definition bump (c : nat -> nat) (k : nat) : nat -> nat := fun j => if Nat.eqb j k then S (c j) else c j.

Definition mline (sh : mshared) (lo : mlocal) : act mshared mlocal :=
  match m_mode lo with
  | Lookup d =>
      match (if lookup_first then m_cache sh d else None) with
      | Some v => Go sh (mkML (Deliver d v) (m_stack lo))
      | None => match nth_error g d with
                | Some tk => Go sh (mkML (Create d (t_deps tk) []) (m_stack lo))
                | None => Go sh (mkML Raised (m_stack lo))
                end
      end
  | Create k [] got =>
      match nth_error g k with
      | Some tk =>
          (* a virtual function stores through SensorCache.__setitem__, which takes the lock its caller already holds *)
          if virt k && negb reentrant then Crash
          else Go (mkM (vset V (m_cache sh) k (t_fn tk got)) (bump (m_count sh) k))
                  (mkML (Deliver k (t_fn tk got)) (m_stack lo))
      | None => Crash
      end
  | Create k (d :: r) got =>
      (* x = cache.get(d): a nested `with self._lock:` by the thread that holds it *)
      if reentrant then Go sh (mkML (Lookup d) (Fr k r got :: m_stack lo)) else Crash
  | Deliver d v =>
      match m_stack lo with
      | [] => Fin lo
      | Fr k r got :: st => Go sh (mkML (Create k r (got ++ [v])) st)
      end
  | Raised =>
      match m_stack lo with
      | [] => Fin lo
      | _ :: st => Go sh (mkML Raised st)
      end
  end.
Definition mstart (t : nat) : mlocal := mkML (Lookup (want t)) [].
Definition m0 : mshared := mkM (vempty V) (fun _ => 0).
Definition mresult (lo : mlocal) : option V := match m_mode lo with Deliver _ v => Some v | _ => None end.

End Memo.
Arguments mkM {V}. Arguments m_cache {V}. Arguments m_count {V}.
Arguments mkML {V}. Arguments m_mode {V}. Arguments m_stack {V}.
Arguments Fr {V}. Arguments Lookup {V}. Arguments Create {V}. Arguments Deliver {V}. Arguments Raised {V}.

Definition sensor_reentrant : bool := Z.eqb sensor_lock_kind 2.

(* the shape of a virtual-sensor function as TRANSLATED (Generated.c20_virtual_fn_skeletons): a list of
   1 = input fetched with cache.get(...)   2 = cache[...] = <local value> / cache.update({...: <local value>})
   3 = return of a value that was stored   4 = local computation
   The frames of the stack machine are: fetch all inputs, compute, store, return.  A function fits when no input is
   fetched after the first store (a stored value is complete and never touched again), it stores at least once and
   the return is its last statement. *)
Fixpoint skel_after_store (l : list Z) : bool :=     (* only stores and local statements, then the return, nothing after *)
  match l with
  | [] => false
  | 3%Z :: r => match r with [] => true | _ => false end
  | 2%Z :: r => skel_after_store r
  | 4%Z :: r => skel_after_store r
  | _ => false
  end.
Fixpoint skel_ok (l : list Z) : bool :=
  match l with
  | [] => false
  | 1%Z :: r => skel_ok r
  | 4%Z :: r => skel_ok r
  | 2%Z :: r => skel_after_store r
  | _ => false
  end.
Definition skel_inputs (l : list Z) : nat := List.length (filter (Z.eqb 1) l).
Definition skel_stores (l : list Z) : nat := List.length (filter (Z.eqb 2) l).

(* ================================================================================================================ *)
(* B. the wildcard property map                                                                                      *)
(* ================================================================================================================ *)
(* shared: the keys of the dict in insertion order.  _get_props as translated (Generated.c20_props_code):
   0 = props = prop_map.setdefault(name, {})   1 = for key, val in prop_map.items(): ... props.update(val)
   2 = props.update(kwargs)   3 = return props *)
Record plocal := mkPL { p_name : nat; p_todo : list Z; p_iter : option (nat * nat);  (* position, size when the iterator was made *)
                        p_seen : list nat }.
Definition pline (sh : list nat) (lo : plocal) : act (list nat) plocal :=
  match p_iter lo with
  | Some (pos, size) =>
      (* next(iterator): CPython compares the current size of the dict with the size at creation *)
      if negb (Nat.eqb (List.length sh) size) then Crash
      else match nth_error sh pos with
           | Some k => Go sh (mkPL (p_name lo) (p_todo lo) (Some (S pos, size)) (p_seen lo ++ [k]))
           | None => Go sh (mkPL (p_name lo) (p_todo lo) None (p_seen lo))
           end
  | None =>
      match p_todo lo with
      | [] => Fin lo
      | 0%Z :: r => Go (if existsb (Nat.eqb (p_name lo)) sh then sh else sh ++ [p_name lo]) (mkPL (p_name lo) r None (p_seen lo))
      | 1%Z :: r => Go sh (mkPL (p_name lo) r (Some (0, List.length sh)) (p_seen lo))
      | 2%Z :: r => Go sh (mkPL (p_name lo) r None (p_seen lo))
      | 3%Z :: r => Fin (mkPL (p_name lo) r None (p_seen lo))
      | _ => Crash
      end
  end.
Definition pstart (code : list Z) (name : nat -> nat) (t : nat) : plocal := mkPL (name t) code None [].
(* the code is what the model understands: own entry first, then ONE pass over the map, then the return *)
Fixpoint zlist_eqb (a b : list Z) : bool :=
  match a, b with
  | [], [] => true
  | x :: r, y :: s => Z.eqb x y && zlist_eqb r s
  | _, _ => false
  end.
Definition props_code_ok (code : list Z) : bool :=
  (zlist_eqb code [0%Z; 1%Z; 2%Z; 3%Z] || zlist_eqb code [0%Z; 1%Z; 3%Z])%bool.

(* ================================================================================================================ *)
(* C. S3ChunkStore._verified_buckets                                                                                 *)
(* ================================================================================================================ *)
(* _verify_bucket as translated (Generated.c20_verify_bucket_code):
   0 = if bucket in self._verified_buckets: return      1 = response = self.request(...) [S3ObjectNotFound -> StoreUnavailable]
   2 = assert response.ok                               3 = if b'<Contents>' not in response.content: raise StoreUnavailable
   4 = self._verified_buckets.add(bucket)
   status b: what the server says about bucket b (0 = no such bucket, 1 = empty, anything else = has keys) -- ANY function *)
Section Verify.
Variable status : nat -> Z.
Variable code : list Z.
Record vlocal := mkVL { v_bucket : nat; v_pc : nat; v_out : Z }.     (* v_out: 0 running, 1 returned, 2 StoreUnavailable *)
Definition vline (sh : list nat) (lo : vlocal) : act (list nat) vlocal :=
  let next := mkVL (v_bucket lo) (S (v_pc lo)) 0%Z in
  match nth_error code (v_pc lo) with
  | None => Fin (mkVL (v_bucket lo) (v_pc lo) 1%Z)
  | Some 0%Z => if existsb (Nat.eqb (v_bucket lo)) sh then Fin (mkVL (v_bucket lo) (v_pc lo) 1%Z) else Go sh next
  | Some 1%Z => if Z.eqb (status (v_bucket lo)) 0 then Fin (mkVL (v_bucket lo) (v_pc lo) 2%Z) else Go sh next
  | Some 2%Z => Go sh next
  | Some 3%Z => if Z.eqb (status (v_bucket lo)) 1 then Fin (mkVL (v_bucket lo) (v_pc lo) 2%Z) else Go sh next
  | Some 4%Z => Go (v_bucket lo :: sh) next
  | Some _ => Crash
  end.
Definition vstart (bucket : nat -> nat) (t : nat) : vlocal := mkVL (bucket t) 0 0%Z.
(* what a single thread gets from a store that has verified nothing yet *)
Definition vspec (b : nat) : Z := if (Z.eqb (status b) 0 || Z.eqb (status b) 1)%bool then 2%Z else 1%Z.
End Verify.

(* both checks happen before position i *)
Definition checks_before (code : list Z) (i : nat) : bool :=
  (existsb (Z.eqb 1) (firstn i code) && existsb (Z.eqb 3) (firstn i code))%bool.
Definition known_instr (c : Z) : bool := (Z.leb 0 c && Z.leb c 4)%bool.
(* the bucket is recorded only after BOTH checks, a run that reaches the end has made both checks *)
Definition verify_code_ok (code : list Z) : bool :=
  (forallb known_instr code && checks_before code (List.length code) &&
   forallb (fun i => match nth_error code i with Some 4%Z => checks_before code i | _ => true end) (seq 0 (List.length code)))%bool.

(* ================================================================================================================ *)
(* D. the session pool at request level                                                                              *)
(* ================================================================================================================ *)
(* events of thread t: borrow, send one attempt through the borrowed session, sleep before the next attempt (the session
   stays borrowed), give the session back, lose it (an exception left `with self._session_pool() as session:`) *)
Inductive rop := RGet (t : nat) | RUse (t : nat) | RSleep (t : nat) | RPut (t : nat) | RDrop (t : nat).
Record rpool := mkR { r_pool : pool; r_lost : nat; r_clash : bool; r_unheld : bool }.
Definition held_by (t : nat) (p : pool) : option nat :=
  match find (fun h => Nat.eqb (fst h) t) (p_held p) with Some (_, x) => Some x | None => None end.
(* is item x, used by t, also in somebody else's hands or in the free list? *)
Definition clashes (t x : nat) (p : pool) : bool :=
  (existsb (Nat.eqb x) (p_free p) ||
   existsb (fun h => Nat.eqb (snd h) x && negb (Nat.eqb (fst h) t)) (p_held p) ||
   Nat.ltb 1 (List.length (filter (fun h => Nat.eqb (snd h) x) (p_held p))))%bool.
Definition rstep (r : rpool) (o : rop) : rpool :=
  match o with
  | RGet t => mkR (pool_step (r_pool r) (PGet t)) (r_lost r) (r_clash r) (r_unheld r)
  | RPut t => mkR (pool_step (r_pool r) (PPut t)) (r_lost r) (r_clash r) (r_unheld r)
  | RSleep t => r
  | RUse t => match held_by t (r_pool r) with
              | Some x => mkR (r_pool r) (r_lost r) (r_clash r || clashes t x (r_pool r)) (r_unheld r)
              | None => mkR (r_pool r) (r_lost r) (r_clash r) true
              end
  | RDrop t => match held_by t (r_pool r) with
               | Some x => mkR (mkPool (p_free (r_pool r)) (p_next (r_pool r)) (rm_held t x (p_held (r_pool r))) (p_err (r_pool r)))
                               (S (r_lost r)) (r_clash r) (r_unheld r)
               | None => r
               end
  end.
Definition rinit : rpool := mkR pool_init 0 false false.
(* one request whose attempts end as the list says: 0 = error that is retried (after a sleep), 1 = success, anything
   else = error that is raised.  fin = `_Pool.__call__` returns the item in a finally clause (Generated.c20_pool_call_finally);
   sleep_in = retries.sleep() happens inside the `with ... as session:` (Generated.c20_request_sleep_in_borrow) *)
Fixpoint attempts (fin sleep_in : bool) (t : nat) (outs : list Z) : list rop :=
  match outs with
  | [] => [if fin then RPut t else RDrop t]             (* (the retries ran out: MaxRetryError leaves the block) *)
  | 0%Z :: r => RUse t :: (if sleep_in then [RSleep t] else [RPut t; RSleep t; RGet t]) ++ attempts fin sleep_in t r
  | 1%Z :: _ => [RUse t; RPut t]
  | _ :: _ => [RUse t; if fin then RPut t else RDrop t]
  end.
Definition request_events (fin sleep_in : bool) (t : nat) (outs : list Z) : list rop := RGet t :: attempts fin sleep_in t outs.
Definition rop_thread (o : rop) : nat := match o with RGet t | RUse t | RSleep t | RPut t | RDrop t => t end.
Definition is_drop (o : rop) : bool := match o with RDrop _ => true | _ => false end.

(* ================================================================================================================ *)
(* wire functions                                                                                                     *)
(* ================================================================================================================ *)
Open Scope Z_scope.
(* 205: the sensor cache machine on a concrete DAG.
   (graph virt wants schedule locked) -> per thread (state result), the cache, the creation counts, the single-thread values.
   state: 0 idle, 1 inside, 2 done with a value, 3 done with KeyError, 4 crashed *)
Definition of_mthread (s : gt (@mlocal Z)) : sx :=
  match s with
  | GIdle => L [I 0] | GIn _ => L [I 1]
  | GDone lo => match mresult Z lo with Some v => L [I 2; I v] | None => L [I 3] end
  | GFail => L [I 4]
  end.
Definition wire_205 (x : sx) : sx :=
  match x with
  | L [gx; vx; wx; sched; I locked] =>
      let g := map ztask (to_list gx) in
      let virt := fun k => nth k (to_bools vx) false in
      let wants := to_nats wx in
      let want := fun t => nth t wants O in
      let ln := mline Z g virt sensor_reentrant c20_sensor_get_lookup_first in
      let c := if Z.eqb locked 1 then gexec _ _ ln (mstart Z want) (m0 Z) (to_nats sched)
               else uexec _ _ ln (mstart Z want) (m0 Z) (to_nats sched) in
      let n := List.length g in
      L [L (map (fun t => of_mthread (g_th c t)) (seq 0 (List.length wants)));
         of_vmap n (m_cache (g_sh c)); of_nats (map (m_count (g_sh c)) (seq 0 n)); of_vmap n (seq_run Z g);
         of_nats (g_hist c)]
  | _ => sx_err
  end.

(* 206: the property map.  (initial-keys names schedule locked) -> per thread (state, keys seen), final keys *)
Definition of_pthread (s : gt plocal) : sx :=
  match s with
  | GIdle => L [I 0] | GIn _ => L [I 1] | GDone lo => L [I 2; of_nats (p_seen lo)] | GFail => L [I 4]
  end.
Definition wire_206 (x : sx) : sx :=
  match x with
  | L [kx; nx; sched; I locked] =>
      let names := to_nats nx in
      let st := pstart c20_props_code (fun t => nth t names O) in
      let c := if Z.eqb locked 1 then gexec _ _ pline st (to_nats kx) (to_nats sched)
               else uexec _ _ pline st (to_nats kx) (to_nats sched) in
      L [L (map (fun t => of_pthread (g_th c t)) (seq 0 (List.length names))); of_nats (g_sh c)]
  | _ => sx_err
  end.

(* 207: the verified-bucket set (never locked).  (statuses buckets schedule) -> per thread (state, outcome), the set,
   the single-thread outcomes *)
Definition of_vthread (s : gt vlocal) : sx :=
  match s with
  | GIdle => L [I 0] | GIn _ => L [I 1] | GDone lo => L [I 2; I (v_out lo)] | GFail => L [I 4]
  end.
Definition wire_207 (x : sx) : sx :=
  match x with
  | L [sx_; bx; sched] =>
      let sts := to_Zs sx_ in
      let status := fun b => nth b sts 0 in
      let bs := to_nats bx in
      let c := uexec _ _ (vline status c20_verify_bucket_code) (vstart (fun t => nth t bs O)) [] (to_nats sched) in
      L [L (map (fun t => of_vthread (g_th c t)) (seq 0 (List.length bs))); of_nats (g_sh c);
         of_Zs (map (vspec status) bs); of_bool (verify_code_ok c20_verify_bucket_code)]
  | _ => sx_err
  end.

(* 208: request-level pool history.  events (kind thread) with kind 0 get 1 use 2 sleep 3 put 4 drop ->
   (free, held items, lost, clash, unheld, raised, made) *)
Definition to_rop (x : sx) : rop :=
  match x with
  | L [I 0; I t] => RGet (Z.to_nat t) | L [I 1; I t] => RUse (Z.to_nat t) | L [I 2; I t] => RSleep (Z.to_nat t)
  | L [I 3; I t] => RPut (Z.to_nat t) | L [_; I t] => RDrop (Z.to_nat t) | _ => RSleep O
  end.
Definition of_rop (o : rop) : sx :=
  match o with
  | RGet t => L [I 0; of_nat t] | RUse t => L [I 1; of_nat t] | RSleep t => L [I 2; of_nat t]
  | RPut t => L [I 3; of_nat t] | RDrop t => L [I 4; of_nat t]
  end.
Definition wire_208 (x : sx) : sx :=
  let r := fold_left rstep (map to_rop (to_list x)) rinit in
  L [of_nats (p_free (r_pool r)); of_nats (map snd (p_held (r_pool r))); of_nat (r_lost r); of_bool (r_clash r);
     of_bool (r_unheld r); of_bool (p_err (r_pool r)); of_nat (p_next (r_pool r))].
(* 209: the events of one request as the TRANSLATED flags make them: (thread outcomes) -> events *)
Definition wire_209 (x : sx) : sx :=
  match x with
  | L [I t; outs] => L (map of_rop (request_events c20_pool_call_finally c20_request_sleep_in_borrow (Z.to_nat t) (to_Zs outs)))
  | _ => sx_err
  end.

(* ---------- D': threads RUNNING request programs (an interleaving is a schedule of thread ids) ---------- *)
Close Scope Z_scope.
Open Scope nat_scope.
Record rcfg := mkRC { rc_pool : rpool; rc_rem : nat -> list rop }.
Definition rcupd (f : nat -> list rop) (t : nat) (x : list rop) : nat -> list rop := fun u => if Nat.eqb u t then x else f u.
Definition rcstep (c : rcfg) (t : nat) : rcfg :=
  match rc_rem c t with
  | [] => c
  | o :: r => mkRC (rstep (rc_pool c) o) (rcupd (rc_rem c) t r)
  end.
Definition rcexec (prog : nat -> list rop) (schedule : list nat) : rcfg := fold_left rcstep schedule (mkRC rinit prog).
(* the program of thread t: its requests one after the other, each with its own list of attempt outcomes *)
Definition thread_prog (fin sleep_in : bool) (t : nat) (reqs : list (list Z)) : list rop :=
  flat_map (request_events fin sleep_in t) reqs.
Definition count_held (t : nat) (p : pool) : nat := List.length (filter (fun h => Nat.eqb (fst h) t) (p_held p)).
(* what a thread that holds h sessions may still do: borrow only with empty hands, send / give back / lose only with one *)
Fixpoint okprog (t h : nat) (l : list rop) : bool :=
  match l with
  | [] => Nat.eqb h 0
  | RGet u :: r => Nat.eqb u t && Nat.eqb h 0 && okprog t 1 r
  | RUse u :: r => Nat.eqb u t && Nat.eqb h 1 && okprog t 1 r
  | RSleep u :: r => Nat.eqb u t && okprog t h r
  | RPut u :: r => Nat.eqb u t && Nat.eqb h 1 && okprog t 0 r
  | RDrop u :: r => Nat.eqb u t && Nat.eqb h 1 && okprog t 0 r
  end.
