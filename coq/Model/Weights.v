(* C15: weights, excision, Van Vleck correction.  Model of
     katdal/vis_flags_weights.py  corrprod_to_autocorr (121-151), correct_autocorr_quantisation (154-196),
                                  weight_power_scale (199-242), _scale_weights (245-256),
                                  ChunkStoreVisFlagsWeights.__init__ (372-396: Van Vleck, stored weights, scaling choice)
     katdal/visdatav4.py          accumulations_per_dump (251-252) and the excision transforms (648-663)
     katdal/h5datav3.py           weights (343-352, 1047-1065: product of the two data sets, absent -> 1, none selected -> 1)

   Numbers: Ext := Fin q | PInf | NInf | NaN with q : Qc (canonical rationals, Leibniz equality) and the IEEE-754 rules
   for products / reciprocals / isfinite of the special values.  NOT modelled (assumptions of the check): rounding,
   overflow, underflow, the sign of zero (a lemma shows the kernel's result does not depend on it).
   Labels of correlator inputs are integers (the harness numbers the strings). *)
From Coq Require Import ZArith QArith Qcanon Qround List Bool Arith.
From KV Require Import Base.Sx Gen.Generated Model.Interp.
Import ListNotations.
Close Scope Q_scope.
Open Scope nat_scope.

(* ------------------------------------------------------------------ extended numbers *)
Inductive Ext := Fin (q : Qc) | PInf | NInf | NaN.

Definition isfinite (x : Ext) : bool := match x with Fin _ => true | _ => false end.
Definition eflip (x : Ext) : Ext := match x with PInf => NInf | NInf => PInf | o => o end.
(* infinity times a finite number of the given sign (0 * inf = NaN) *)
Definition einf_signed (c : comparison) (i : Ext) : Ext :=
  match c with Eq => NaN | Gt => i | Lt => eflip i end.

Definition emul (x y : Ext) : Ext :=
  match x, y with
  | NaN, _ => NaN
  | _, NaN => NaN
  | Fin a, Fin b => Fin (a * b)
  | Fin a, i => einf_signed (a ?= 0)%Qc i
  | i, Fin a => einf_signed (a ?= 0)%Qc i
  | PInf, PInf => PInf
  | NInf, NInf => PInf
  | _, _ => NInf
  end.

(* np.reciprocal: 1/(+0) = +inf (1/(-0) = -inf: the sign of zero is not in the carrier, see recip_zero_sign in
   the proofs), 1/(+-inf) = 0, 1/NaN = NaN *)
Definition erecip (x : Ext) : Ext :=
  match x with
  | Fin a => if Qc_eq_dec a 0 then PInf else Fin (/ a)
  | PInf => Fin 0
  | NInf => Fin 0
  | NaN => NaN
  end.

Definition is_zero (q : Qc) : bool := if Qc_eq_dec q 0 then true else false.

(* ------------------------------------------------------------------ corrprod_to_autocorr *)
Definition label := Z.
Definition corrprod := (label * label)%type.

(* the for loop: auto_indices (appended to) and auto_lookup (a dict: the newest binding is found first) *)
Fixpoint scan_autos (cps : list corrprod) (i : nat) (ai : list nat) (lk : list (label * nat))
  : list nat * list (label * nat) :=
  match cps with
  | [] => (ai, lk)
  | (a, b) :: t =>
      if Z.eqb a b then scan_autos t (S i) (ai ++ [i]) ((a, List.length ai) :: lk)
      else scan_autos t (S i) ai lk
  end.

Definition lookup (lk : list (label * nat)) (a : label) : option nat :=
  match find (fun p => Z.eqb (fst p) a) lk with Some p => Some (snd p) | None => None end.

Fixpoint map_opt {A B} (f : A -> option B) (l : list A) : option (list B) :=
  match l with
  | [] => Some []
  | x :: t => match f x, map_opt f t with Some y, Some r => Some (y :: r) | _, _ => None end
  end.

(* None = KeyError (an autocorrelation is missing) *)
Definition corrprod_to_autocorr (cps : list corrprod) : option (list nat * list nat * list nat) :=
  let '(ai, lk) := scan_autos cps 0 [] [] in
  match map_opt (fun p => lookup lk (fst p)) cps, map_opt (fun p => lookup lk (snd p)) cps with
  | Some i1, Some i2 => Some (ai, i1, i2)
  | _, _ => None
  end.

(* SPEC: position of the LAST product (a, a) in the list, None if there is none *)
Fixpoint last_auto_from (a : label) (cps : list corrprod) (i : nat) : option nat :=
  match cps with
  | [] => None
  | (x, y) :: t =>
      match last_auto_from a t (S i) with
      | Some j => Some j
      | None => if Z.eqb x a && Z.eqb y a then Some i else None
      end
  end.
Definition last_auto (cps : list corrprod) (a : label) : option nat := last_auto_from a cps 0.
Definition is_auto (p : corrprod) : bool := Z.eqb (fst p) (snd p).

(* ------------------------------------------------------------------ weight_power_scale *)
Definition bad_weight : Qc := Q2Qc (weights_bad_weight_num # weights_bad_weight_den).

(* auto_scale[k]: with the repair of F9 (weights_nonfinite_auto_guard) a non-finite autocorrelation becomes NaN *)
Definition auto_scale_gen (guard divide : bool) (a : Ext) : Ext :=
  if guard && negb (isfinite a) then NaN else if divide then erecip a else a.
Definition auto_scale := auto_scale_gen weights_nonfinite_auto_guard.

(* p = auto_scale[index1[k]] * auto_scale[index2[k]]; if not isfinite(p): p = bad_weight; out = p * weights *)
Definition finish_scale (s1 s2 w : Ext) : Ext :=
  let p := emul s1 s2 in emul (if isfinite p then p else Fin bad_weight) w.
Definition power_scale_gen (guard divide : bool) (a1 a2 w : Ext) : Ext :=
  finish_scale (auto_scale_gen guard divide a1) (auto_scale_gen guard divide a2) w.
Definition power_scale := power_scale_gen weights_nonfinite_auto_guard.

(* one (i, j) iteration of the kernel: vrow = real parts of vis[i, j, :], wrow = weights[i, j, :] *)
Definition scale_row (divide : bool) (ai i1 i2 : list nat) (vrow wrow : list Ext) : list Ext :=
  let sc := map (fun k => auto_scale divide (nth k vrow NaN)) ai in
  map (fun k => finish_scale (nth (nth k i1 O) sc NaN) (nth (nth k i2 O) sc NaN) (nth k wrow NaN))
      (seq 0 (List.length vrow)).

(* ------------------------------------------------------------------ arrays, blocks, chunkings *)
Definition cx := (Ext * Ext)%type.          (* complex64: real and imaginary part *)
Definition cx_nan : cx := (NaN, NaN).
Definition arr3 (A : Type) := list (list (list A)).     (* [dump][channel][corrprod] *)

Fixpoint map2 {A B D} (f : A -> B -> D) (a : list A) (b : list B) : list D :=
  match a, b with
  | x :: a', y :: b' => f x y :: map2 f a' b'
  | _, _ => []
  end.

Fixpoint offsets (start : nat) (sizes : list nat) : list (nat * nat) :=
  match sizes with [] => [] | s :: r => (start, s) :: offsets (start + s) r end.

Section Assemble.
  Context {A : Type}.
  Variable blk : nat -> nat -> nat -> nat -> list (list A).   (* t0 tn f0 fn -> tn rows of fn cells *)
  Definition assemble (tch fch : list nat) : list (list A) :=
    flat_map (fun tt =>
      let blocks := map (fun cc => blk (fst tt) (snd tt) (fst cc) (snd cc)) (offsets 0 fch) in
      map (fun n => flat_map (fun b => nth n b []) blocks) (seq 0 (snd tt)))
    (offsets 0 tch).
End Assemble.

Definition slice_block {A} (data : list (list A)) (t0 tn f0 fn : nat) : list (list A) :=
  map (fun row => firstn fn (skipn f0 row)) (firstn tn (skipn t0 data)).

(* a cell (all corrprods of one dump and channel) as stored in several chunks along the baseline axis, and
   rechunk({2: B}): the pieces are concatenated again *)
Definition split_b {A} (bch : list nat) (cell : list A) : list (list A) :=
  map (fun on => firstn (snd on) (skipn (fst on) cell)) (offsets 0 bch).
Definition rechunk_b {A} (bch : list nat) (cell : list A) : list A := concat (split_b bch cell).

(* the (t, f) block of an array chunked bch along the baseline axis, after rechunking to one baseline chunk *)
Definition block_of {A} (a : arr3 A) (bch : list nat) (t0 tn f0 fn : nat) : list (list (list A)) :=
  map (map (rechunk_b bch)) (slice_block a t0 tn f0 fn).

(* weight_power_scale on one block *)
Definition kernel_block (divide : bool) (ai i1 i2 : list nat)
           (vb : list (list (list cx))) (wb : list (list (list Ext))) : list (list (list Ext)) :=
  map2 (map2 (fun vrow wrow => scale_row divide ai i1 i2 (map fst vrow) wrow)) vb wb.

(* _scale_weights: None = KeyError *)
Definition scale_weights (divide : bool) (cps : list corrprod)
           (vis : arr3 cx) (bchv : list nat) (w : arr3 Ext) (bchw : list nat) (tch fch : list nat)
  : option (arr3 Ext) :=
  match corrprod_to_autocorr cps with
  | None => None
  | Some (ai, i1, i2) =>
      Some (assemble (fun t0 tn f0 fn =>
              kernel_block divide ai i1 i2 (block_of vis bchv t0 tn f0 fn) (block_of w bchw t0 tn f0 fn)) tch fch)
  end.

(* ------------------------------------------------------------------ Van Vleck *)
(* np.interp(x, xp, fp) on an extended number: NaN -> NaN, -inf -> fp[0], +inf -> fp[-1] *)
Definition vv_interp (table : list node) (x : Ext) : Ext :=
  match x with
  | Fin q => Fin (Q2Qc (interp_d table (this q)))
  | PInf => Fin (Q2Qc (snd (last table (0%Q, 0%Q))))
  | NInf => Fin (Q2Qc (snd (hd (0%Q, 0%Q) table)))
  | NaN => NaN
  end.

(* out = vis.copy(); out[..., auto_indices] = np.interp(vis[..., auto_indices].real, ...)  (imaginary part := 0) *)
Definition vv_cell (table : list node) (ai : list nat) (cell : list cx) : list cx :=
  map (fun k => let c := nth k cell cx_nan in
                if existsb (Nat.eqb k) ai then (vv_interp table (fst c), Fin 0) else c)
      (seq 0 (List.length cell)).

Definition correct_autocorr (table : list node) (cps : list corrprod) (vis : arr3 cx) (bchv tch fch : list nat)
  : option (arr3 cx) :=
  match corrprod_to_autocorr cps with
  | None => None
  | Some (ai, _, _) =>
      Some (assemble (fun t0 tn f0 fn => map (map (vv_cell table ai)) (block_of vis bchv t0 tn f0 fn)) tch fch)
  end.

(* ------------------------------------------------------------------ ChunkStoreVisFlagsWeights *)
(* darray['weights'] * darray['weights_channel'][..., np.newaxis] *)
Definition stored_weights (w : arr3 Ext) (wc : list (list Ext)) : arr3 Ext :=
  map2 (map2 (fun cell c => map (fun x => emul x c) cell)) w wc.

Record vfw := mkVfw { v_vis : arr3 cx; v_weights : arr3 Ext; v_unscaled : arr3 Ext }.

(* scaled = stored_weights_are_scaled (= not need_weights_power_scale); vv = Some table when van_vleck='autocorr'.
   After the Van Vleck step the visibilities have a single baseline chunk. *)
Definition vis_flags_weights (cps : list corrprod) (scaled : bool) (vv : option (list node))
           (vis : arr3 cx) (bchv : list nat) (w : arr3 Ext) (bchw : list nat) (wc : list (list Ext))
           (tch fch : list nat) : option vfw :=
  let B := List.length cps in
  let vis_bch := match vv with
                 | None => Some (vis, bchv)
                 | Some table => match correct_autocorr table cps vis bchv tch fch with
                                 | Some v => Some (v, [B]) | None => None end
                 end in
  match vis_bch with
  | None => None
  | Some (vis', bchv') =>
      let sw := stored_weights w wc in
      if scaled then
        match scale_weights false cps vis' bchv' sw bchw tch fch with
        | Some u => Some (mkVfw vis' sw u) | None => None end
      else
        match scale_weights true cps vis' bchv' sw bchw tch fch with
        | Some s => Some (mkVfw vis' s sw) | None => None end
  end.

(* ------------------------------------------------------------------ excision (visdatav4.py) *)
(* numpy / Python round: half to even *)
Definition rheQ (q : Q) : Z :=
  let f := Qfloor q in
  match Qcompare (q - inject_Z f) (1 # 2) with
  | Lt => f
  | Gt => (f + 1)%Z
  | Eq => if Z.even f then f else (f + 1)%Z
  end.
Definition rhe (q : Qc) : Z := rheQ q.
Definition ZQc (z : Z) : Qc := Q2Qc (inject_Z z).

(* cbf_dumps_per_sdp_dump = round(dump_period / cbf_dump_period); accumulations_per_dump = n_accs * that *)
Definition cbf_dumps (dump_period cbf_dump_period : Qc) : Z := rhe (dump_period / cbf_dump_period).
Definition accs_per_dump (n_accs : Z) (k : Z) : Z := (n_accs * k)%Z.

Definition eround (x : Ext) : Ext := match x with Fin q => Fin (ZQc (rhe q)) | o => o end.
Definition ediv_c (x : Ext) (c : Qc) : Ext := emul x (Fin (/ c)).           (* c > 0 in the domain *)
Definition esub_from (a : Qc) (x : Ext) : Ext :=
  match x with Fin q => Fin (a - q) | PInf => NInf | NInf => PInf | NaN => NaN end.

(* integer_cbf_dumps then excision_fraction, with accs_per_sdp_dump = A, accs_per_cbf_dump = A / k *)
Definition excision (n_accs k : Z) (w : Ext) : Ext :=
  let A := ZQc (accs_per_dump n_accs k) in
  let a := (A / ZQc k)%Qc in
  let w' := emul (eround (ediv_c w a)) (Fin a) in
  ediv_c (esub_from A w') A.

(* SPEC: one minus (the weight rounded to a whole number m of correlator dumps, i.e. m * n_accs accumulations)
   over the accumulations per dump *)
Definition spec_excision (n_accs k : Z) (w : Qc) : Qc :=
  (1 - (ZQc (rhe (w / ZQc n_accs)) * ZQc n_accs) / (ZQc n_accs * ZQc k))%Qc.

(* ------------------------------------------------------------------ HDF5 v3 weights *)
(* a data set that is absent from the file is a dummy reading 1.0 everywhere *)
Definition v3_read (present : bool) (x : Ext) : Ext := if present then x else Fin 1.
(* selected = some weight type selected (the default 'all'); nothing selected -> ones *)
Definition v3_weight (selected have_w have_wc : bool) (w wc : Ext) : Ext :=
  if selected then emul (v3_read have_w w) (v3_read have_wc wc) else Fin 1.

(* ------------------------------------------------------------------ SPEC of the v4 weights (pointwise) *)
(* "a tiny positive weight": the value documented in the kernel, 2^-32 (the model uses the constant regenerated from
   the source; the theorems need bad_weight = spec_tiny) *)
Definition spec_tiny : Qc := Q2Qc (1 # 4294967296).
(* the scale factor the property asks for: 1/(a1 a2) for finite non-zero powers, else the tiny constant *)
Definition spec_scale_div (a1 a2 : Ext) : Qc :=
  match a1, a2 with
  | Fin x, Fin y => if is_zero x || is_zero y then spec_tiny else (/ (x * y))%Qc
  | _, _ => spec_tiny
  end.
(* multiplying back: a1 a2 for finite powers (zero included), else the tiny constant *)
Definition spec_scale_mul (a1 a2 : Ext) : Qc :=
  match a1, a2 with
  | Fin x, Fin y => (x * y)%Qc
  | _, _ => spec_tiny
  end.
Definition spec_weight (scaled : bool) (a1 a2 w wc : Ext) : Ext :=
  if scaled then emul w wc else emul (Fin (spec_scale_div a1 a2)) (emul w wc).
Definition spec_unscaled (scaled : bool) (a1 a2 w wc : Ext) : Ext :=
  if scaled then emul (Fin (spec_scale_mul a1 a2)) (emul w wc) else emul w wc.

Definition get3 {A} (a : arr3 A) (d : A) (t f b : nat) : A := nth b (nth f (nth t a []) []) d.
Definition auto_re (cps : list corrprod) (vis : arr3 cx) (t f : nat) (a : label) : Ext :=
  match last_auto cps a with Some p => fst (get3 vis cx_nan t f p) | None => NaN end.
(* Van Vleck, pointwise: only products (a, a) change *)
Definition spec_vv (table : list node) (cps : list corrprod) (vis : arr3 cx) (t f b : nat) : cx :=
  let c := get3 vis cx_nan t f b in
  if is_auto (nth b cps (0%Z, 1%Z)) then (vv_interp table (fst c), Fin 0) else c.

(* ------------------------------------------------------------------ wire *)
Definition pow2 (k : Z) : positive := Z.to_pos (2 ^ k).
(* (n k) = n / 2^k; (1) = +inf; (-1) = -inf; () = NaN *)
Definition to_Ext (x : sx) : Ext :=
  match x with
  | L [I n; I k] => Fin (Q2Qc (n # pow2 k))
  | L [I 1] => PInf
  | L [I (-1)] => NInf
  | _ => NaN
  end.
Definition of_Qc (q : Qc) : sx := L [I (Qnum q); I (Z.pos (Qden q))].
Definition of_Ext (x : Ext) : sx :=
  match x with Fin q => of_Qc q | PInf => L [I 1] | NInf => L [I (-1)] | NaN => L [] end.
Definition to_cx (x : sx) : cx := match x with L [a; b] => (to_Ext a, to_Ext b) | _ => cx_nan end.
Definition of_cx (c : cx) : sx := L [of_Ext (fst c); of_Ext (snd c)].
Definition to_cp (x : sx) : corrprod := match x with L [I a; I b] => (a, b) | _ => (0%Z, 1%Z) end.
Definition to_arr3 {A} (f : sx -> A) (x : sx) : arr3 A :=
  map (fun r => map (fun c => map f (to_list c)) (to_list r)) (to_list x).
Definition of_arr3 {A} (f : A -> sx) (a : arr3 A) : sx :=
  L (map (fun r => L (map (fun c => L (map f c)) r)) a).
Definition to_arr2 {A} (f : sx -> A) (x : sx) : list (list A) := map (fun r => map f (to_list r)) (to_list x).
(* a rational n/d (d > 0) *)
Definition to_Q (x : sx) : Q := match x with L [I n; I d] => n # Z.to_pos d | _ => 0%Q end.
Definition to_node (x : sx) : node := match x with L [a; b] => (to_Q a, to_Q b) | _ => (0%Q, 0%Q) end.
Definition to_table (x : sx) : option (list node) :=
  match x with L [] => None | L l => Some (map to_node l) | I _ => None end.

Definition total (l : list nat) : nat := fold_right Nat.add 0 l.

(* well-formed = "the real code does not raise": shapes agree with the chunkings and the corrprod list *)
Definition rect3 {A} (a : arr3 A) (T F B : nat) : bool :=
  Nat.eqb (List.length a) T
  && forallb (fun r => Nat.eqb (List.length r) F && forallb (fun c => Nat.eqb (List.length c) B) r) a.
Definition rect2 {A} (a : list (list A)) (T F : nat) : bool :=
  Nat.eqb (List.length a) T && forallb (fun r => Nat.eqb (List.length r) F) a.

(* (cps scaled table vis bchv w bchw wc tch fch)
   -> (wf ok (ai i1 i2) vis' weights unscaled spec_vis spec_weights spec_unscaled)
   ok = 0 when an autocorrelation is missing (KeyError); model arrays are assembled from the blocks of the
   chunkings, spec arrays are computed pointwise from the last (a, a) positions *)
Definition wire_15 (x : sx) : sx :=
  match x with
  | L [cps; scaled; table; vis; bchv; w; bchw; wc; tch; fch] =>
      let cps := map to_cp (to_list cps) in
      let scaled := to_bool scaled in
      let vv := to_table table in
      let vis := to_arr3 to_cx vis in
      let w := to_arr3 to_Ext w in
      let wc := to_arr2 to_Ext wc in
      let bchv := to_nats bchv in
      let bchw := to_nats bchw in
      let tch := to_nats tch in
      let fch := to_nats fch in
      let T := total tch in
      let F := total fch in
      let B := List.length cps in
      let wf := rect3 vis T F B && rect3 w T F B && rect2 wc T F && Nat.eqb (total bchv) B && Nat.eqb (total bchw) B in
      let idx := match corrprod_to_autocorr cps with
                 | Some (ai, i1, i2) => L [of_nats ai; of_nats i1; of_nats i2]
                 | None => L [] end in
      let pts (A : Type) (g : nat -> nat -> nat -> A) : arr3 A :=
          map (fun t => map (fun f => map (fun b => g t f b) (seq 0 B)) (seq 0 F)) (seq 0 T) in
      let svis := match vv with
                  | None => vis
                  | Some table => pts cx (spec_vv table cps vis) end in
      let a1 t f b := auto_re cps svis t f (fst (nth b cps (0%Z, 1%Z))) in
      let a2 t f b := auto_re cps svis t f (snd (nth b cps (0%Z, 1%Z))) in
      let wat t f b := get3 w NaN t f b in
      let wcat t f := nth f (nth t wc []) NaN in
      match vis_flags_weights cps scaled vv vis bchv w bchw wc tch fch with
      | None => L [of_bool wf; I 0; idx]
      | Some r =>
          L [of_bool wf; I 1; idx;
             of_arr3 of_cx (v_vis r); of_arr3 of_Ext (v_weights r); of_arr3 of_Ext (v_unscaled r);
             of_arr3 of_cx svis;
             of_arr3 of_Ext (pts Ext (fun t f b => spec_weight scaled (a1 t f b) (a2 t f b) (wat t f b) (wcat t f)));
             of_arr3 of_Ext (pts Ext (fun t f b => spec_unscaled scaled (a1 t f b) (a2 t f b) (wat t f b) (wcat t f)))]
      end
  | _ => sx_err
  end.

(* the kernel alone: (divide ai i1 i2 vis w) -> out   (vis, w : one block); divide = () : the argument left out
   (default regenerated from the signature) *)
Definition wire_151 (x : sx) : sx :=
  match x with
  | L [divide; ai; i1; i2; vis; w] =>
      let d := match divide with L [] => weights_default_divide | _ => to_bool divide end in
      of_arr3 of_Ext (kernel_block d (to_nats ai) (to_nats i1) (to_nats i2)
                                   (to_arr3 to_cx vis) (to_arr3 to_Ext w))
  | _ => sx_err
  end.

(* excision: (n_accs dump_period cbf_dump_period ws) -> (k A (model ...) (spec ...)) ; periods as rationals *)
Definition wire_152 (x : sx) : sx :=
  match x with
  | L [I n_accs; dp; cdp; ws] =>
      let k := cbf_dumps (Q2Qc (to_Q dp)) (Q2Qc (to_Q cdp)) in
      let ws := map to_Ext (to_list ws) in
      L [I k; I (accs_per_dump n_accs k);
         L (map (fun w => of_Ext (excision n_accs k w)) ws);
         L (map (fun w => match w with Fin q => of_Qc (spec_excision n_accs k q) | _ => L [I 0] end) ws)]
  | _ => sx_err
  end.

(* v3 weights: (selected have_w have_wc ((w wc) ...)) -> (model ...) *)
Definition wire_153 (x : sx) : sx :=
  match x with
  | L [sel; hw; hwc; cells] =>
      L (map (fun c => match c with
                       | L [w; wc] => of_Ext (v3_weight (to_bool sel) (to_bool hw) (to_bool hwc) (to_Ext w) (to_Ext wc))
                       | _ => sx_err end) (to_list cells))
  | _ => sx_err
  end.

(* Van Vleck interpolation on a given table: (table (x ...)) -> (y ...).
   The wire carries machine integers only: table nodes are dyadic literals (n k) = n / 2^k, results are
   (sign (limbs of |num|) (limbs of den)) with 30-bit limbs, least significant first; (1) (-1) () as above. *)
Definition to_Qd (x : sx) : Q := match x with L [I n; I k] => n # pow2 k | _ => 0%Q end.
Definition to_node_d (x : sx) : node := match x with L [a; b] => (to_Qd a, to_Qd b) | _ => (0%Q, 0%Q) end.
Fixpoint limbs (fuel : nat) (z : Z) : list sx :=
  match fuel with
  | O => []
  | S f => if Z.eqb z 0 then [] else I (z mod 1073741824) :: limbs f (z / 1073741824)
  end.
Definition of_big (z : Z) : sx := L (limbs (S (Z.to_nat (Z.log2 z))) z).
Definition of_Ext_big (x : Ext) : sx :=
  match x with
  | Fin q => L [I (Z.sgn (Qnum q)); of_big (Z.abs (Qnum q)); of_big (Z.pos (Qden q))]
  | PInf => L [I 1] | NInf => L [I (-1)] | NaN => L []
  end.
Definition wire_154 (x : sx) : sx :=
  match x with
  | L [table; xs] =>
      let table := map to_node_d (to_list table) in
      L (map (fun v => of_Ext_big (vv_interp table (to_Ext v))) (to_list xs))
  | _ => sx_err
  end.
