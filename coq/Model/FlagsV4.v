(* C16 (v4 part): what a v4 data set shows for ONE sample (time, channel, product) after a HISTORY of select()
   calls: raw flag byte, boolean flag, visibility, weight.
   Model of visdatav4.py:VisibilityDataV4._set_keep (which array each public indexer is built on and the flag
   transform chain -- both regenerated from the source, Gen/Generated.v: v4_indexer_src, v4_flag_transforms),
   of dataset.py:DataSet.select's handling of flags= (kept in self._selection, re-applied by every later call),
   of vis_flags_weights.py (_apply_data_lost, fill value of a lost flags chunk, zero-filled placeholders) and of
   the three applycal kernels restricted to power-of-two correction factors (the general kernels are C13's). *)
From Coq Require Import ZArith List Bool String.
From KV Require Import Base.Sx Base.Str Gen.Generated Model.Flags.
Import ListNotations.
Open Scope Z_scope.

(* ---------- history of select() calls: only the flags= keyword matters for the mask ---------- *)
(* Some a : select(..., flags=a, ...)        None : a select() call without flags= (any other keywords or none) *)
Definition hist_step (known : list string) (m : Z) (st : option selarg) : Z :=
  match st with Some a => flagmask_v34 known a | None => m end.
(* DataSet.__init__ : self._flags_keep = 'all' *)
Definition hist_mask (known : list string) (h : list (option selarg)) : Z :=
  fold_left (hist_step known) h (flagmask_v34 known (SelStr "all")).

(* SPEC: the names currently selected are those of the last flags= argument (all by default) *)
Fixpoint last_sel (h : list (option selarg)) (cur : selarg) : selarg :=
  match h with
  | [] => cur
  | Some a :: t => last_sel t a
  | None :: t => last_sel t cur
  end.
Definition spec_hist_mask (h : list (option selarg)) : Z :=
  spec_mask_v34 (spec_wanted (last_sel h (SelStr "all"))).

(* ---------- one sample of the stored data set ---------- *)
Record v4s := mk_v4s {
  s_stored : Z;          (* flag byte in the chunk store *)
  s_lostf : bool;        (* its flags chunk is missing *)
  s_lostv : bool;        (* its correlator_data chunk is missing *)
  s_lostw : bool;        (* its weights or weights_channel chunk is missing *)
  s_cal : option Z;      (* None: the calibration correction is invalid (NaN); Some k: correction factor 2^k
                            (Some 0 when no calibration is applied) *)
  s_re : Z; s_im : Z;    (* stored visibility re + j im *)
  s_w : Z; s_we : Z      (* stored weight  w * 2^we  (weights * weights_channel) *)
}.

Definition lost_any (s : v4s) : bool := s_lostf s || s_lostv s || s_lostw s.
Definition cal_invalid (s : v4s) : bool := match s_cal s with None => true | Some _ => false end.

(* source.data.flags : ChunkStoreVisFlagsWeights (lost flags chunk = fill value; |= <lost flag> where any chunk is lost) *)
Definition source_flags (s : v4s) : Z :=
  Z.lor (if s_lostf s then lookup_mask v4_lost_fill_name else s_stored s)
        (if lost_any s then lookup_mask v4_lost_flag_name else 0).
(* _corrected.flags : apply_flags_correction (or source.data itself when no calibration is applied: s_cal = Some 0) *)
Definition corrected_flags (s : v4s) : Z :=
  Z.lor (source_flags s) (if cal_invalid s then lookup_mask v4_cal_flag_name else 0).

Definition assoc (k : string) (l : list (string * string)) : string :=
  match find (fun p => String.eqb (fst p) k) l with Some p => snd p | None => ""%string end.

(* the array an indexer is built on, by the (regenerated) attribute chain in _set_keep *)
Definition flags_array (src : string) (s : v4s) : Z :=
  if String.eqb src "_corrected.flags" then corrected_flags s
  else if String.eqb src "source.data.flags" then source_flags s
  else -1.

(* d.raw_flags : no transform, no dependence on the mask *)
Definition v4_raw (s : v4s) : Z := flags_array (assoc "raw_flags" v4_indexer_src) s.

(* d.flags : [bitwise_and with the mask unless ~mask == 0 (uint8)] then view as bool *)
Definition v4_flag (raw mask : Z) : bool :=
  if mask =? 255 then negb (raw =? 0) else flag_bool raw mask.

(* d.vis : (re, im, k) stands for (re + j im) * 2^k ; placeholder chunks are zeros; invalid correction keeps the data *)
Definition v4_vis (s : v4s) : Z * Z * Z :=
  if s_lostv s then (0, 0, 0)
  else match s_cal s with Some k => (s_re s, s_im s, k) | None => (s_re s, s_im s, 0) end.
(* d.weights : (w, e) stands for w * 2^e ; divided by |factor|^2 = 4^k ; zero where the correction is invalid *)
Definition v4_weight (s : v4s) : Z * Z :=
  if s_lostw s then (0, 0)
  else match s_cal s with Some k => (s_w s, s_we s - 2 * k) | None => (0, 0) end.

Record v4obs := mk_v4obs { o_raw : Z; o_flag : bool; o_vis : Z * Z * Z; o_weight : Z * Z }.

Definition v4_observe (known : list string) (h : list (option selarg)) (s : v4s) : v4obs :=
  let m := hist_mask known h in
  mk_v4obs (v4_raw s) (v4_flag (v4_raw s) m) (v4_vis s) (v4_weight s).

(* ---------- SPEC ---------- *)
(* stored byte (nothing stored where the flags chunk itself is lost) | data_lost (bit 3) | postproc (bit 7) *)
Definition spec_v4_raw (s : v4s) : Z :=
  spec_raw_flags_v4 (if s_lostf s then 0 else s_stored s) (lost_any s) (cal_invalid s).
Definition spec_v4_flag (h : list (option selarg)) (s : v4s) : bool :=
  spec_flag_bool (spec_v4_raw s) (spec_hist_mask h).

(* ---------- wire ---------- *)
Definition to_step (x : sx) : option selarg :=
  match x with L [a] => Some (to_selarg a) | _ => None end.
Definition to_v4s (x : sx) : v4s :=
  match x with
  | L [I st; lf; lv; lw; calok; I k; I re; I im; I w; I we] =>
      mk_v4s st (to_bool lf) (to_bool lv) (to_bool lw) (if to_bool calok then Some k else None) re im w we
  | _ => mk_v4s (-1) false false false None 0 0 0 0
  end.
Definition of_obs (o : v4obs) (sr : Z) (sf : bool) : sx :=
  match o_vis o, o_weight o with
  | (re, im, k), (w, e) => L [I (o_raw o); of_bool (o_flag o); I re; I im; I k; I w; I e; I sr; of_bool sf]
  end.

(* (1 hist samples) -> (mask spec_mask ((raw flag re im k w we spec_raw spec_flag) ...))
   hist = list of () | (selarg) ; sample = (stored lostf lostv lostw calok k re im w we) *)
Definition wire_161 (x : sx) : sx :=
  match x with
  | L [I 1; L hist; L samples] =>
      let h := map to_step hist in
      L [I (hist_mask flag_names h); I (spec_hist_mask h);
         L (map (fun y => let s := to_v4s y in
                          of_obs (v4_observe flag_names h s) (spec_v4_raw s) (spec_v4_flag h s)) samples)]
  | _ => sx_err
  end.
