(* C03, PART 4: scan_indices / compscan_indices / target_indices as PART OF THE STATE.

   In Model/Scans.v the three attributes are computed from the time mask whenever the generators read them.  In katdal they
   are stored attributes: the last three statements of select() assign them (sel_indices_attrs, translated), nothing else
   does - in particular NOT `self._set_keep(old_timekeep.copy())`, the statement with which the generators put the old time
   mask back after every yield.  Between that statement and the next select() the attributes are STALE (they still describe
   the item just left).  This file models the attributes as stored state (xst), select() recomputing them, _set_keep() not,
   and the generators reading the STORED values (`self.scan_indices[:]`, `self.target_indices[0]`); Proofs/ScansIdxP.v shows
   that every read happens on fresh values, that this model erases to the one of Scans.v, and that after EVERY history of
   select() calls, complete, nested and abandoned iterator runs the stored attributes are the sorted, duplicate-free
   indices present in the current selection.  Definitions only. *)
From Coq Require Import ZArith List Bool String Arith.
From KV Require Import Base.Sx Base.Str Base.SelSlice Gen.Generated Model.Select Model.Scans.
Import ListNotations.
Open Scope Z_scope.

Definition idxtab := list (string * list Z).
Record xst := { x_st : st; x_idx : idxtab }.

(* the tail of select(): self.<attr> = sorted(set(self.sensor[<sensor>])) for every row of the translated table, in order;
   the sensor cache has just been given the new time mask m by _set_keep *)
Definition recompute (o : obs) (m : list bool) : idxtab :=
  map (fun p => (fst p, indices_of (sensor_field (snd p)) o m)) sel_indices_attrs.
(* self.<attr> *)
Definition xattr (a : string) (x : xst) : list Z :=
  match find (fun p => String.eqb (fst p) a) (x_idx x) with Some p => snd p | None => [] end.
Definition fresh (o : obs) (x : xst) : Prop := x_idx x = recompute o (tk (x_st x)).
Fixpoint zs_eqb (a b : list Z) : bool :=
  match a, b with [], [] => true | x :: a', y :: b' => Z.eqb x y && zs_eqb a' b' | _, _ => false end.
Definition freshb (o : obs) (x : xst) : bool :=
  forallb (fun p => match find (fun q => String.eqb (fst q) (fst p)) (x_idx x) with
                    | Some q => zs_eqb (snd q) (snd p) | None => false end) (recompute o (tk (x_st x)))
  && (List.length (x_idx x) =? List.length sel_indices_attrs)%nat.

(* the format classes end __init__ with a select(): the attributes of a freshly opened data set are fresh *)
Definition xinit (o : obs) : xst := {| x_st := init o; x_idx := recompute o (tk (init o)) |}.

Definition xselect (o : obs) (x : xst) (kw : kwargs) : res xst :=
  match select o (x_st x) kw with
  | Ok s' => Ok {| x_st := s'; x_idx := recompute o (tk s') |}
  | Err e => Err e
  end.

(* self._set_keep(old_timekeep.copy()); self._selection.pop(<key>, None): the attributes keep their values *)
Definition xafter_yield (w : which) (old : list bool) (x : xst) : xst :=
  {| x_st := set_sel (remove_key (it_pop w) (sel (x_st x))) (mset DT old (x_st x)); x_idx := x_idx x |}.

(* `self.target_indices[0]` reads the STORED attribute; `self.sensor[...][0]` reads the sensor cache (live mask) *)
Definition xpick_target (w : which) (o : obs) (x : xst) : option Z :=
  if String.eqb (it_target_pick w) "first"
  then hd_error (map (sensor_field (it_target_src w)) (kept_dumps o (tk (x_st x))))
  else hd_error (xattr (it_target_src w) x).
Definition xit_attr (w : which) : string := match w with WScans => it_scans_field | WCompscans => it_compscans_field end.

(* the loop of the generators on the extended state; returns the yields, the attribute table seen at each yield, the state *)
Fixpoint xit_loop {B} (O : sobs) (w : which) (old : list bool) (body : xst -> res (B * xst))
                  (l : list Z) (x : xst) : res (list (yielded B) * list idxtab * xst) :=
  match l with
  | [] => Ok ([], [], x)
  | v :: rest =>
      match xselect (so O) x (yield_kw w v) with
      | Err e => Err e
      | Ok x1 =>
          match name_of O w v, xpick_target w (so O) x1 with
          | Some nm, Some t =>
              match body x1 with
              | Err e => Err e
              | Ok (b, x2) =>
                  match xit_loop O w old body rest (xafter_yield w old x2) with
                  | Err e => Err e
                  | Ok (ys, ix, xf) =>
                      Ok ({| y_index := v; y_name := nm; y_target := t; y_st := x_st x1; y_body := b |} :: ys, x_idx x1 :: ix, xf)
                  end
              end
          | _, _ => Err EFail
          end
      end
  end.

Definition xiterate {B} (O : sobs) (w : which) (body : xst -> res (B * xst)) (x : xst)
  : res (list (yielded B) * list idxtab * xst) :=
  let l := xattr (xit_attr w) x in                       (* scans = self.scan_indices[:] *)
  let presel := set_key "reset" (VStr (it_final_reset w)) (sel (x_st x)) in
  match xit_loop O w (tk (x_st x)) body l x with
  | Err e => Err e
  | Ok (ys, ix, x') =>
      match xselect (so O) x' presel with
      | Ok xf => Ok (ys, ix, xf)
      | Err e => Err e
      end
  end.

Definition xno_body (x : xst) : res (unit * xst) := Ok (tt, x).
Definition xiterate_plain (O : sobs) (w : which) (x : xst) : res (list (yielded unit) * xst) :=
  match xiterate O w xno_body x with Ok (ys, _, xf) => Ok (ys, xf) | Err e => Err e end.

(* the state in which the generator is suspended BETWEEN two items (after _set_keep(old) + pop, before the next select()):
   not observable by the consumer; used for the staleness witness *)
Definition xbetween (O : sobs) (w : which) (x : xst) : option xst :=
  match xattr (xit_attr w) x with
  | v :: _ => match xselect (so O) x (yield_kw w v) with Ok x1 => Some (xafter_yield w (tk (x_st x)) x1) | Err _ => None end
  | [] => None
  end.

(* the consumer leaves the loop while item number n is current *)
Definition xiterate_break {B} (O : sobs) (w : which) (body : xst -> res (B * xst)) (n : nat) (x : xst)
  : res (list (yielded B) * option abandoned * xst) :=
  let l := xattr (xit_attr w) x in
  match nth_error l n with
  | None => match xiterate O w body x with Ok (ys, _, xf) => Ok (ys, None, xf) | Err e => Err e end
  | Some v =>
      match xit_loop O w (tk (x_st x)) body (firstn n l) x with
      | Err e => Err e
      | Ok (ys, _, x') =>
          match xselect (so O) x' (yield_kw w v) with
          | Err e => Err e
          | Ok x1 =>
              match name_of O w v, xpick_target w (so O) x1 with
              | Some nm, Some t => Ok (ys, Some {| ab_index := v; ab_name := nm; ab_target := t; ab_st := x_st x1 |}, x1)
              | _, _ => Err EFail
              end
          end
      end
  end.

(* histories: everything a user can do to the selection through the public API *)
Inductive xop :=
| XSelect (kw : kwargs)                    (* d.select(...) *)
| XIter (w : which)                        (* for ... in d.<w>(): pass *)
| XNested (outer inner : which)            (* for ... in d.<outer>(): for ... in d.<inner>(): pass *)
| XIterSel (w : which) (calls : list kwargs)   (* for ... in d.<w>(): d.select(..); d.select(..) *)
| XBreak (w : which) (n : nat).            (* for ... in d.<w>(): break   (at item number n) *)

Fixpoint xrun_calls (o : obs) (x : xst) (calls : list kwargs) : res xst :=
  match calls with
  | [] => Ok x
  | c :: rest => match xselect o x c with Ok x' => xrun_calls o x' rest | Err e => Err e end
  end.
Definition xbody_calls (O : sobs) (calls : list kwargs) (x : xst) : res (unit * xst) :=
  match xrun_calls (so O) x calls with Ok x' => Ok (tt, x') | Err e => Err e end.

(* an operation that raises leaves the data set in some state; the history stops there (None) *)
Definition xstep (O : sobs) (x : xst) (op : xop) : option xst :=
  match op with
  | XSelect kw => match xselect (so O) x kw with Ok x' => Some x' | Err _ => None end
  | XIter w => match xiterate_plain O w x with Ok (_, x') => Some x' | Err _ => None end
  | XNested outer inner => match xiterate O outer (xiterate_plain O inner) x with Ok (_, _, x') => Some x' | Err _ => None end
  | XIterSel w calls => match xiterate O w (xbody_calls O calls) x with Ok (_, _, x') => Some x' | Err _ => None end
  | XBreak w n => match xiterate_break O w xno_body n x with Ok (_, _, x') => Some x' | Err _ => None end
  end.
Fixpoint xrun (O : sobs) (x : xst) (ops : list xop) : option xst :=
  match ops with
  | [] => Some x
  | op :: rest => match xstep O x op with Some x' => xrun O x' rest | None => None end
  end.

(* ---------------------------------------------------------------- WIRE *)
Definition of_idxtab (t : idxtab) : sx := L (map (fun p => L [of_string (fst p); of_Zs (snd p)]) t).
Definition to_xop (x : sx) : xop :=
  match x with
  | L [I 0; kw] => XSelect (to_kwargs kw)
  | L [I 1; I w] => XIter (which_of w)
  | L [I 2; I a; I b] => XNested (which_of a) (which_of b)
  | L [I 3; I w; calls] => XIterSel (which_of w) (map to_kwargs (to_list calls))
  | L [I 4; I w; I n] => XBreak (which_of w) (Z.to_nat n)
  | _ => XSelect []
  end.
(* history of operations; an operation that raises is skipped (status 1), as the harness does on the implementation *)
Fixpoint xrun_wire (O : sobs) (x : xst) (ops : list xop) : list sx :=
  match ops with
  | [] => []
  | op :: rest =>
      match xstep O x op with
      | Some x' => L [I 0; of_idxtab (x_idx x'); of_bools (tk (x_st x')); of_bool (freshb (so O) x')] :: xrun_wire O x' rest
      | None => L [I 1] :: xrun_wire O x rest
      end
  end.
(* (obs state_cd label_cd ops which) -> (per operation: status, stored attributes, time mask, fresh?;
   then the generator `which` run on the final state: attribute table at every yield, after exhaustion, and in the
   unobservable state between the first two items (with its freshness)) *)
Definition wire_36 (x : sx) : sx :=
  match x with
  | L [ob; stc; lbc; ops; I wo] =>
      let o := to_obs ob in
      let O := {| so := o; so_state := to_cd stc; so_label := to_cd lbc |} in
      let hist := xrun_wire O (xinit o) (map to_xop (to_list ops)) in
      let xl := fold_left (fun x op => match xstep O x op with Some x' => x' | None => x end) (map to_xop (to_list ops)) (xinit o) in
      let w := which_of wo in
      let it := match xiterate O w xno_body xl with
                | Ok (ys, ix, xf) => L [I 0; L (map of_idxtab ix); of_idxtab (x_idx xf); of_bool (freshb o xf)]
                | Err _ => L [I 2]
                end in
      let btw := match xbetween O w xl with
                 | Some xb => L [of_idxtab (x_idx xb); of_bools (tk (x_st xb)); of_bool (freshb o xb)]
                 | None => L []
                 end in
      L [L hist; it; btw]
  | _ => sx_err
  end.
