(* C15, round 2: the glue around the modelled core of katdal/vis_flags_weights.py, visdatav4.py and h5datav3.py.
     _narrow (93-118)                         the dtype chosen for the three lookup arrays and that nothing is lost
     corrprod_to_autocorr (121-151)           as called: KeyError / ValueError (empty product list) / narrowed arrays
     ChunkStoreVisFlagsWeights.__init__       options (corrprods=None, stored_weights_are_scaled, van_vleck strings),
                                              the order of the tests, lost chunks replaced by zeros (_default_zero),
                                              preselect_index (dumps / channels sliced before anything else)
     visdatav4._cbf_attrs, accumulations_per_dump, the excision indexer being None ("lite" data sets)
     h5datav3 weights: values of the dummy data sets, parsing of the weight selection
   Constants / defaults / tables come from Gen/Generated.v. *)
From Coq Require Import ZArith QArith Qcanon List Bool Arith.
From KV Require Import Base.Sx Gen.Generated Model.Interp Model.Weights.
Import ListNotations.
Close Scope Q_scope.
Open Scope nat_scope.

Inductive err := KeyError | ValueError | TypeError | AssertionError.
Inductive res (A : Type) := Ok (a : A) | Err (e : err).
Arguments Ok {A} a.
Arguments Err {A} e.

Definition is_nil {A} (l : list A) : bool := match l with [] => true | _ => false end.

(* ------------------------------------------------------------------ _narrow *)
Inductive ndtype := UInt (bits : Z) | KeepDtype.

Definition zmin_list (x : Z) (l : list Z) : Z := fold_left Z.min l x.
Definition zmax_list (x : Z) (l : list Z) : Z := fold_left Z.max l x.
(* one branch of the if-chain: `high <= th` / `high < th` *)
Definition narrow_hit (hi : Z) (e : bool * Z * Z) : bool :=
  let '(le, th, _) := e in if le then (hi <=? th)%Z else (hi <? th)%Z.
(* `if not array.size: uint8; elif low < 0: keep; elif high <= 0xFF: uint8; ...; else: keep` *)
Definition narrow_dtype_gen (table : list (bool * Z * Z)) (empty_bits : Z) (l : list Z) : ndtype :=
  match l with
  | [] => UInt empty_bits
  | x :: r => if (zmin_list x r <? 0)%Z then KeepDtype
              else match find (narrow_hit (zmax_list x r)) table with
                   | Some (_, _, b) => UInt b
                   | None => KeepDtype
                   end
  end.
(* array.astype(unsigned N-bit): C wrap-around *)
Definition astype (d : ndtype) (v : Z) : Z := match d with UInt b => (v mod 2 ^ b)%Z | KeepDtype => v end.
Definition narrowed := (ndtype * list Z)%type.
Definition narrow_gen (table : list (bool * Z * Z)) (empty_bits : Z) (l : list Z) : narrowed :=
  let d := narrow_dtype_gen table empty_bits l in (d, map (astype d) l).
Definition narrow := narrow_gen narrow_table narrow_empty_bits.

(* corrprod_to_autocorr as called: np.array([]) is a float64 array, the kind test of _narrow comes first *)
Definition c2a_api (cps : list corrprod) : res (narrowed * narrowed * narrowed) :=
  match corrprod_to_autocorr cps with
  | None => Err KeyError
  | Some (ai, i1, i2) =>
      if is_nil ai || is_nil i1 || is_nil i2 then Err ValueError
      else Ok (narrow (map Z.of_nat ai), narrow (map Z.of_nat i1), narrow (map Z.of_nat i2))
  end.

(* ------------------------------------------------------------------ ChunkStoreVisFlagsWeights.__init__ *)
Inductive vv_opt := VOff | VAuto | VOther.
Definition vv_of_code (z : Z) : vv_opt := if (z =? 0)%Z then VOff else if (z =? 1)%Z then VAuto else VOther.
Record vfw_out := mkOut { o_vis : arr3 cx; o_weights : arr3 Ext; o_unscaled : option (arr3 Ext) }.

(* `assert len(corrprods) == vis.shape[2]` then corrprod_to_autocorr(corrprods) *)
Definition check_cps (cps : option (list corrprod)) (B : nat) : res (list corrprod) :=
  match cps with
  | None => Err TypeError                                    (* len(None) *)
  | Some c => if Nat.eqb (List.length c) B
              then match c2a_api c with Ok _ => Ok c | Err e => Err e end
              else Err AssertionError
  end.

(* B = vis.shape[2].  Order as in the source: Van Vleck choice, stored weights, corrprods choice. *)
Definition vfw_api (cps : option (list corrprod)) (scaled : bool) (vvo : vv_opt) (table : list node) (B : nat)
           (vis : arr3 cx) (bchv : list nat) (w : arr3 Ext) (bchw : list nat) (wc : list (list Ext))
           (tch fch : list nat) : res vfw_out :=
  let vis1 : res (arr3 cx * list nat) :=
      match vvo with
      | VOff => Ok (vis, bchv)
      | VOther => Err ValueError
      | VAuto => match check_cps cps B with
                 | Err e => Err e
                 | Ok c => match correct_autocorr table c vis bchv tch fch with
                           | Some v => Ok (v, [B])
                           | None => Err KeyError
                           end
                 end
      end in
  match vis1 with
  | Err e => Err e
  | Ok (vis', bchv') =>
      let sw := stored_weights w wc in
      match cps with
      | Some _ =>
          match check_cps cps B with
          | Err e => Err e
          | Ok c =>
              if scaled then
                match scale_weights false c vis' bchv' sw bchw tch fch with
                | Some u => Ok (mkOut vis' sw (Some u)) | None => Err KeyError end
              else
                match scale_weights true c vis' bchv' sw bchw tch fch with
                | Some s => Ok (mkOut vis' s (Some sw)) | None => Err KeyError end
          end
      | None => if scaled then Ok (mkOut vis' sw None) else Err ValueError
      end
  end.

(* the call with every optional argument left out *)
Definition vfw_api_default (B : nat) (vis : arr3 cx) (bchv : list nat) (w : arr3 Ext) (bchw : list nat)
           (wc : list (list Ext)) (tch fch : list nat) : res vfw_out :=
  vfw_api None vfw_default_scaled (vv_of_code vfw_default_van_vleck) [] B vis bchv w bchw wc tch fch.

(* ------------------------------------------------------------------ lost chunks and preselection *)
(* index of the chunk that holds coordinate x *)
Fixpoint chunk_idx (ch : list nat) (x : nat) : nat :=
  match ch with
  | [] => 0
  | s :: r => if x <? s then 0 else S (chunk_idx r (x - s))
  end.

Definition imap {A B} (f : nat -> A -> B) (l : list A) : list B :=
  map (fun p => f (fst p) (snd p)) (combine (seq 0 (List.length l)) l).

Definition mem3 (k : nat * nat * nat) (l : list (nat * nat * nat)) : bool :=
  existsb (fun m => Nat.eqb (fst (fst m)) (fst (fst k)) && Nat.eqb (snd (fst m)) (snd (fst k)) && Nat.eqb (snd m) (snd k)) l.
Definition mem2 (k : nat * nat) (l : list (nat * nat)) : bool :=
  existsb (fun m => Nat.eqb (fst m) (fst k) && Nat.eqb (snd m) (snd k)) l.

Definition chunking3 := (list nat * list nat * list nat)%type.
(* a chunk that is missing from the store reads as `fill` everywhere (_default_zero on a PlaceholderChunk) *)
Definition fill_lost3 {A} (fill : A) (ch : chunking3) (lost : list (nat * nat * nat)) (a : arr3 A) : arr3 A :=
  let '(tch, fch, bch) := ch in
  imap (fun t row => imap (fun f cell => imap (fun b x =>
         if mem3 (chunk_idx tch t, chunk_idx fch f, chunk_idx bch b) lost then fill else x) cell) row) a.
Definition fill_lost2 {A} (fill : A) (ch : list nat * list nat) (lost : list (nat * nat)) (a : list (list A)) : list (list A) :=
  imap (fun t row => imap (fun f x => if mem2 (chunk_idx (fst ch) t, chunk_idx (snd ch) f) lost then fill else x) row) a.

Definition lost_fill : Ext := Fin (ZQc vfw_lost_fill).
Definition lost_fill_cx : cx := (lost_fill, Fin 0).

(* preselect_index = (slice(t0, t0 + tn), slice(f0, f0 + fn)) applied to every array *)
Definition presel := option (nat * nat * nat * nat).
Definition presel_rows {A} (p : presel) (a : list (list A)) : list (list A) :=
  match p with None => a | Some (t0, tn, f0, fn) => slice_block a t0 tn f0 fn end.

(* the constructor on a store: stored arrays with their own chunkings and lost chunks; tch / fch are the dump and
   channel chunkings of the (preselected) result, the baseline chunkings are those of the store *)
Definition vfw_store (cps : option (list corrprod)) (scaled : bool) (vvo : vv_opt) (table : list node) (B : nat)
           (vis : arr3 cx) (chv : chunking3) (lostv : list (nat * nat * nat))
           (w : arr3 Ext) (chw : chunking3) (lostw : list (nat * nat * nat))
           (wc : list (list Ext)) (chc : list nat * list nat) (lostc : list (nat * nat))
           (p : presel) (tch fch : list nat) : res vfw_out :=
  vfw_api cps scaled vvo table B
          (presel_rows p (fill_lost3 lost_fill_cx chv lostv vis)) (snd chv)
          (presel_rows p (fill_lost3 lost_fill chw lostw w)) (snd chw)
          (presel_rows p (fill_lost2 lost_fill chc lostc wc)) tch fch.

(* ------------------------------------------------------------------ visdatav4: CBF attributes, excision indexer *)
(* _cbf_attrs: six look-ups in a row, a KeyError / IndexError of any of them makes the data set "lite" *)
Definition cbf_attrs {A} (src0 : option A) (int_time : option Qc) (n_accs : option Z) (fsrc0 instr sft : option A)
  : option (Qc * Z) :=
  match src0, int_time, n_accs, fsrc0, instr, sft with
  | Some _, Some it, Some n, Some _, Some _, Some _ => Some (it, n)
  | _, _, _, _, _, _ => None
  end.
Definition accumulations_per_dump (dump_period : Qc) (c : option (Qc * Z)) : option Z :=
  match c with Some (cdp, n) => Some (accs_per_dump n (cbf_dumps dump_period cdp)) | None => None end.
Definition map3 {A B} (f : A -> B) (a : arr3 A) : arr3 B := map (map (map f)) a.
(* d.excision: ValueError when the unscaled weights or the CBF attributes are not there *)
Definition excision_api (dump_period : Qc) (c : option (Qc * Z)) (unscaled : option (arr3 Ext)) : res (arr3 Ext) :=
  match c, unscaled with
  | Some (cdp, n), Some u => Ok (map3 (excision n (cbf_dumps dump_period cdp)) u)
  | _, _ => Err ValueError
  end.
(* a v4 data set: constructor, then the excision of its unscaled weights *)
Definition v4_excision (dump_period : Qc) (c : option (Qc * Z)) (r : res vfw_out) : res (arr3 Ext) :=
  match r with Err e => Err e | Ok o => excision_api dump_period c (o_unscaled o) end.

(* ------------------------------------------------------------------ HDF5 v3: dummy data sets, weight selection *)
Definition v3_dummy_w : Ext := Fin (Q2Qc (v3_dummy_weights_num # v3_dummy_weights_den)).
Definition v3_dummy_wc : Ext := Fin (Q2Qc (v3_dummy_weights_channel_num # v3_dummy_weights_channel_den)).
Definition v3_weight_gen (selected have_w have_wc : bool) (w wc : Ext) : Ext :=
  if selected then emul (if have_w then w else v3_dummy_w) (if have_wc then wc else v3_dummy_wc)
  else Fin (ZQc v3_unselected_num).

(* select(weights=...): 'all' | a list of names (strings numbered by the harness) *)
Inductive wsel := SelAll | SelNames (l : list Z).
Fixpoint index_of (x : Z) (l : list Z) (i : nat) : option nat :=
  match l with [] => None | y :: r => if Z.eqb x y then Some i else index_of x r (S i) end.
(* the setter of _weights_keep: indices of the requested names that are known, unknown ones dropped (a warning) *)
Definition v3_selection (known : list Z) (s : wsel) : list nat :=
  flat_map (fun n => match index_of n known 0 with Some i => [i] | None => [] end)
           (match s with SelAll => known | SelNames l => l end).
Definition v3_selected (known : list Z) (s : wsel) : bool := negb (is_nil (v3_selection known s)).
Definition v3_weight_req (known : list Z) (s : wsel) (have_w have_wc : bool) (w wc : Ext) : Ext :=
  v3_weight_gen (v3_selected known s) have_w have_wc w wc.

(* ------------------------------------------------------------------ HDF5 v3: second-stage index *)
(* d.weights[kt, kf, kb]: katdal's lazy indexers apply the index PER AXIS (outer indexing); every per-axis index
   (slice, integer, list, mask) is the list of positions it keeps.  The transform of H5DataV3.weights gets the
   low-resolution block extracted that way and asks the 2-d indexer of weights_channel for the same index
   (`weights_channel[keep]`: the dump and channel parts, per axis again), then multiplies with broadcasting over
   the corrprod axis. *)
Definition outer3 {A} (d : A) (a : arr3 A) (kt kf kb : list nat) : arr3 A :=
  map (fun t => map (fun f => map (fun b => get3 a d t f b) kb) kf) kt.
Definition outer2 {A} (d : A) (a : list (list A)) (kt kf : list nat) : list (list A) :=
  map (fun t => map (fun f => nth f (nth t a []) d) kf) kt.
Definition v3_weights_indexed (sel hw hwc : bool) (w : arr3 Ext) (wc : list (list Ext)) (kt kf kb : list nat) : arr3 Ext :=
  map2 (map2 (fun cell c => map (fun x => v3_weight_gen sel hw hwc x c) cell)) (outer3 NaN w kt kf kb) (outer2 NaN wc kt kf).

(* NOT what katdal does - numpy's vectorised rule on a preloaded weights_channel when both kt and kf are integer
   lists / masks: ONE value per index PAIR (kt[j], kf[j]), broadcast as a column over the dump axis of the block *)
Definition v3_weights_vectorised (sel hw hwc : bool) (w : arr3 Ext) (wc : list (list Ext)) (kt kf kb : list nat) : arr3 Ext :=
  let pairs := map2 (fun t f => nth f (nth t wc []) NaN) kt kf in
  map (fun row => map2 (fun cell c => map (fun x => v3_weight_gen sel hw hwc x c) cell) row pairs) (outer3 NaN w kt kf kb).

(* ------------------------------------------------------------------ wire *)
Definition of_ndtype (d : ndtype) : sx := match d with UInt b => I b | KeepDtype => I 0 end.
Definition of_narrowed (n : narrowed) : sx := L [of_ndtype (fst n); of_Zs (snd n)].
Definition of_err (e : err) : sx :=
  I (match e with KeyError => 1 | ValueError => 2 | TypeError => 3 | AssertionError => 4 end)%Z.

(* (cps) -> (0 err) | (1 (bits ai) (bits i1) (bits i2))   bits = 0: dtype kept *)
Definition wire_156 (x : sx) : sx :=
  match x with
  | L [cps] =>
      match c2a_api (map to_cp (to_list cps)) with
      | Err e => L [I 0; of_err e]
      | Ok (a, b, c) => L [I 1; of_narrowed a; of_narrowed b; of_narrowed c]
      end
  | _ => sx_err
  end.

Definition to_nat3 (x : sx) : nat * nat * nat :=
  match x with L [a; b; c] => (to_nat a, to_nat b, to_nat c) | _ => (0, 0, 0) end.
Definition to_nat2 (x : sx) : nat * nat := match x with L [a; b] => (to_nat a, to_nat b) | _ => (0, 0) end.
Definition to_chunking3 (x : sx) : chunking3 :=
  match x with L [a; b; c] => (to_nats a, to_nats b, to_nats c) | _ => ([], [], []) end.
Definition to_presel (x : sx) : presel :=
  match x with L [a; b; c; d] => Some (to_nat a, to_nat b, to_nat c, to_nat d) | _ => None end.
Definition to_cps_opt (x : sx) : option (list corrprod) :=
  match x with L [L l] => Some (map to_cp l) | _ => None end.

Definition pts {A} (T F B : nat) (g : nat -> nat -> nat -> A) : arr3 A :=
  map (fun t => map (fun f => map (fun b => g t f b) (seq 0 B)) (seq 0 F)) (seq 0 T).

(* the pointwise specification of the property on given (filled, preselected) arrays: vis, weights, unscaled *)
Definition spec_arrays (cps : list corrprod) (scaled : bool) (vv : option (list node))
           (vis : arr3 cx) (w : arr3 Ext) (wc : list (list Ext)) (T F : nat) : arr3 cx * arr3 Ext * arr3 Ext :=
  let B := List.length cps in
  let svis := match vv with None => vis | Some table => pts T F B (spec_vv table cps vis) end in
  let a1 t f b := auto_re cps svis t f (fst (nth b cps (0%Z, 1%Z))) in
  let a2 t f b := auto_re cps svis t f (snd (nth b cps (0%Z, 1%Z))) in
  let wat t f b := get3 w NaN t f b in
  let wcat t f := nth f (nth t wc []) NaN in
  (svis,
   pts T F B (fun t f b => spec_weight scaled (a1 t f b) (a2 t f b) (wat t f b) (wcat t f)),
   pts T F B (fun t f b => spec_unscaled scaled (a1 t f b) (a2 t f b) (wat t f b) (wcat t f))).

(* ((cps)|() scaled vvcode table B vis chv lostv w chw lostw wc chc lostc presel tch fch)   vvcode: 0 'off', 1 'autocorr',
   2 anything else, -1 = the constructor called without any option (regenerated defaults)
   -> (0 err) | (1 vis weights (unscaled)|() spec_vis spec_weights spec_unscaled)
   the spec arrays are present when corrprods are given (else: weights = stored product is compared by the harness) *)
Definition wire_157 (x : sx) : sx :=
  match x with
  | L [cps; scaled; vvcode; table; B; vis; chv; lostv; w; chw; lostw; wc; chc; lostc; p; tch; fch] =>
      let dflt := Z.eqb (to_Z vvcode) (-1) in          (* vvcode = -1: every option left out *)
      let cps := if dflt then None else to_cps_opt cps in
      let scaled := if dflt then vfw_default_scaled else to_bool scaled in
      let vvo := vv_of_code (if dflt then vfw_default_van_vleck else to_Z vvcode) in
      let table := match to_table table with Some t => t | None => [] end in
      let B := to_nat B in
      let vis := to_arr3 to_cx vis in
      let w := to_arr3 to_Ext w in
      let wc := to_arr2 to_Ext wc in
      let chv := to_chunking3 chv in
      let chw := to_chunking3 chw in
      let chc := match chc with L [a; b] => (to_nats a, to_nats b) | _ => ([], []) end in
      let lostv := map to_nat3 (to_list lostv) in
      let lostw := map to_nat3 (to_list lostw) in
      let lostc := map to_nat2 (to_list lostc) in
      let p := to_presel p in
      let tch := to_nats tch in
      let fch := to_nats fch in
      match vfw_store cps scaled vvo table B vis chv lostv w chw lostw wc chc lostc p tch fch with
      | Err e => L [I 0; of_err e]
      | Ok o =>
          (* the SPEC side reads a lost chunk as zero (the documented behaviour), whatever the regenerated fill value is *)
          let zf := Fin 0%Qc in
          let fv := presel_rows p (fill_lost3 (zf, zf) chv lostv vis) in
          let fw := presel_rows p (fill_lost3 zf chw lostw w) in
          let fc := presel_rows p (fill_lost2 zf chc lostc wc) in
          let spec := match cps with
                      | Some c =>
                          let '(sv, sw, su) := spec_arrays c scaled (match vvo with VAuto => Some table | _ => None end)
                                                           fv fw fc (total tch) (total fch) in
                          [of_arr3 of_cx sv; of_arr3 of_Ext sw; of_arr3 of_Ext su]
                      | None => []
                      end in
          L ([I 1; of_arr3 of_cx (o_vis o); of_arr3 of_Ext (o_weights o);
              match o_unscaled o with Some u => of_arr3 of_Ext u | None => L [] end] ++ spec)
      end
  | _ => sx_err
  end.

(* excision API: (present6 int_time n_accs dump_period have_unscaled ws) -> (0 err) | (1 A (model ...))
   present6 = six flags (src_streams[0], int_time, n_accs, src_streams[0] of the correlator, instrument_dev_name,
   scale_factor_timestamp found) *)
Definition wire_158 (x : sx) : sx :=
  match x with
  | L [L [p1; p2; p3; p4; p5; p6]; it; I n; dp; hu; ws] =>
      let opt {A} (p : sx) (v : A) : option A := if to_bool p then Some v else None in
      let c := cbf_attrs (opt p1 tt) (opt p2 (Q2Qc (to_Q it))) (opt p3 n) (opt p4 tt) (opt p5 tt) (opt p6 tt) in
      let dp := Q2Qc (to_Q dp) in
      let u := if to_bool hu then Some [[map to_Ext (to_list ws)]] else None in
      match excision_api dp c u with
      | Err e => L [I 0; of_err e; of_optZ (accumulations_per_dump dp c)]
      | Ok r => L [I 1; of_optZ (accumulations_per_dump dp c); L (map of_Ext (nth 0 (nth 0 r []) []))]
      end
  | _ => sx_err
  end.

(* v3 weights with a selection request: (known (names)|1 have_w have_wc ((w wc) ...)) -> ((selection) (model ...)) *)
Definition wire_159 (x : sx) : sx :=
  match x with
  | L [known; req; hw; hwc; cells] =>
      let known := to_Zs known in
      let s := match req with L l => SelNames (map to_Z l) | I _ => SelAll end in
      L [of_nats (v3_selection known s);
         L (map (fun c => match c with
                          | L [w; wc] => of_Ext (v3_weight_req known s (to_bool hw) (to_bool hwc) (to_Ext w) (to_Ext wc))
                          | _ => sx_err end) (to_list cells))]
  | _ => sx_err
  end.

(* v3 weights under a second-stage index: (sel have_w have_wc w wc kt kf kb) -> model array *)
Definition wire_1511 (x : sx) : sx :=
  match x with
  | L [sel; hw; hwc; w; wc; kt; kf; kb] =>
      of_arr3 of_Ext (v3_weights_indexed (to_bool sel) (to_bool hw) (to_bool hwc) (to_arr3 to_Ext w) (to_arr2 to_Ext wc)
                                         (to_nats kt) (to_nats kf) (to_nats kb))
  | _ => sx_err
  end.
