(* C12: numeric sensors are cleaned, interpolated, cached and selected consistently.
   Model of katdal/sensordata.py (remove_duplicates_and_invalid_values, dummy_sensor_getter,
   SensorCache._get_props/_extract/get/__getitem__/__setitem__/__delitem__/_set_keep/add_aliases) and of
   katdal/concatdata.py (ConcatenatedSensorGetter.get, ConcatenatedSensorCache.get/_set_keep/__setitem__).
   Definitions only.  Numbers are Q; a float result is `qn` = option Q with None = NaN.
   The categorical path (sensor_to_categorical) belongs to C10: only the DECISION categorical/numeric is modelled. *)
From Coq Require Import ZArith QArith List Bool String Ascii.
From KV Require Import Base.Sx Base.Str Gen.Generated Model.Interp.
Import ListNotations.
Open Scope Q_scope.

Definition qn := option Q.

(* ------------------------------------------------------------------ raw samples *)
Inductive dtype := DFloat | DInt | DStr | DBool | DObj.
Definition is_float (d : dtype) : bool := match d with DFloat => true | _ => false end.

Record sample := mkS { s_t : Q; s_v : Q; s_st : string }.
(* g_has_status = false: SensorData.status is None *)
Record getter := mkG { g_dtype : dtype; g_has_status : bool; g_samples : list sample }.

(* ------------------------------------------------------------------ remove_duplicates_and_invalid_values *)
(* np.argsort(x, kind='mergesort'): stable sort by timestamp *)
Fixpoint insert_s (a : sample) (l : list sample) : list sample :=
  match l with
  | [] => [a]
  | b :: t => if Qle_bool (s_t a) (s_t b) then a :: l else b :: insert_s a t
  end.
Definition sort_s (l : list sample) : list sample := fold_right insert_s [] l.

(* last_of_run = list(np.diff(x) != 0) + [True] *)
Fixpoint keep_last (l : list sample) : list sample :=
  match l with
  | [] => []
  | a :: t => match t with
              | [] => [a]
              | b :: _ => if Qeq_bool (s_t a) (s_t b) then keep_last t else a :: keep_last t
              end
  end.

(* status = z[unique_ind].astype('|S7'); keep (status == b'nominal') | (status == b'warn') | (status == b'error');
   the width and the literals come from the source (Generated.v: sensor_status_width, sensor_valid_statuses) *)
Definition status_ok (s : string) : bool :=
  mem_string (substring 0 sensor_status_width s) sensor_valid_statuses.

(* order used by the code: sort, keep last of each run of equal timestamps, THEN drop unreadable statuses *)
Definition clean (has_status : bool) (l : list sample) : list sample :=
  let u := keep_last (sort_s l) in
  if has_status then filter (fun s => status_ok (s_st s)) u else u.

Definition shift (off : Q) (l : list sample) : list sample :=
  map (fun s => mkS (s_t s + off) (s_v s) (s_st s)) l.

Definition nodes_of (l : list sample) : list node := map (fun s => (s_t s, s_v s)) l.

(* ---- SPEC of the clean-up, written independently: sample i survives iff no LATER sample has the same
   timestamp and its status is readable; survivors ordered by time (selection sort on unique times). *)
Fixpoint spec_survivors (has_status : bool) (l : list sample) : list sample :=
  match l with
  | [] => []
  | a :: t => if existsb (fun b => Qeq_bool (s_t a) (s_t b)) t then spec_survivors has_status t
              else if negb has_status || status_ok (s_st a) then a :: spec_survivors has_status t
              else spec_survivors has_status t
  end.
(* piecewise-linear value at x from an UNORDERED set of nodes: nearest node at or below x and nearest node above x *)
Definition best_below (x : Q) (l : list sample) : option sample :=
  fold_left (fun acc s => if Qle_bool (s_t s) x
                          then match acc with Some b => if Qle_bool (s_t b) (s_t s) then Some s else acc | None => Some s end
                          else acc) l None.
Definition best_above (x : Q) (l : list sample) : option sample :=
  fold_left (fun acc s => if Qle_bool (s_t s) x then acc
                          else match acc with Some b => if Qle_bool (s_t s) (s_t b) then Some s else acc | None => Some s end)
            l None.
Definition spec_value (l : list sample) (x : Q) : option Q :=
  match best_below x l, best_above x l with
  | Some a, Some b => Some (((s_t b - x) * s_v a + (x - s_t a) * s_v b) / (s_t b - s_t a))
  | Some a, None => Some (s_v a)
  | None, Some b => Some (s_v b)
  | None, None => None
  end.

(* ------------------------------------------------------------------ sensor properties *)
Inductive ival := IVFloat (q : Q) | IVOther (d : dtype).
Record props := mkP { p_off : option Q; p_cat : option bool; p_init : option ival }.
Definition p_empty : props := mkP None None None.
Definition orelse {A} (a b : option A) : option A := match a with Some _ => a | None => b end.
(* dict.update: keys of b override those of a *)
Definition p_update (a b : props) : props :=
  mkP (orelse (p_off b) (p_off a)) (orelse (p_cat b) (p_cat a)) (orelse (p_init b) (p_init a)).

Definition pmap := list (string * props).
Fixpoint pm_lookup (name : string) (pm : pmap) : option props :=
  match pm with
  | [] => None
  | (k, v) :: t => if String.eqb k name then Some v else pm_lookup name t
  end.
Fixpoint pm_set (name : string) (v : props) (pm : pmap) : pmap :=
  match pm with
  | [] => [(name, v)]
  | (k, w) :: t => if String.eqb k name then (k, v) :: t else (k, w) :: pm_set name v t
  end.

(* '^' + '.*'.join(re.escape(part) for part in key.split('*')) + '$' *)
Definition star : ascii := "*"%char.
Fixpoint glob (p : list ascii) : list ascii -> bool :=
  match p with
  | [] => fun s => match s with [] => true | _ => false end
  | c :: p' =>
      if Ascii.eqb c star
      then fix st (s : list ascii) : bool :=
             glob p' s || match s with [] => false | _ :: s' => st s' end
      else fun s => match s with c' :: s' => Ascii.eqb c c' && glob p' s' | [] => false end
  end.
Definition has_star (k : string) : bool := existsb (Ascii.eqb star) (list_ascii_of_string k).
Definition key_matches (k name : string) : bool :=
  has_star k && glob (list_ascii_of_string k) (list_ascii_of_string name).

(* SensorCache._get_props: name-specific entry, then EVERY matching wildcard entry in dict order (overriding),
   then the keyword arguments; the merged result is written back under `name` *)
Definition merge_wild (name : string) (pm : pmap) (base : props) : props :=
  fold_left (fun acc kv => if key_matches (fst kv) name then p_update acc (snd kv) else acc) pm base.
Definition get_props (name : string) (pm : pmap) (kw : props) : props * pmap :=
  let base := match pm_lookup name pm with Some p => p | None => p_empty end in
  let final := p_update (merge_wild name pm base) kw in
  (final, pm_set name final pm).

(* ------------------------------------------------------------------ dummy_sensor_getter *)
Inductive dval := VNum (q : qn) | VInt (z : Z) | VEmptyStr | VFalse | VNoneObj | VGiven (d : dtype).
Definition dummy_value (init : option ival) (dt : dtype) : dtype * dval :=
  match init with
  | Some (IVFloat q) => (DFloat, VNum (Some q))
  | Some (IVOther d) => (d, VGiven d)
  | None => match dt with
            | DFloat => (DFloat, VNum None)
            | DInt => (DInt, VInt sensor_dummy_int)      (* regenerated from dummy_sensor_getter *)
            | DStr => (DStr, VEmptyStr)
            | DBool => (DBool, VFalse)
            | DObj => (DObj, VNoneObj)
            end
  end.

(* ------------------------------------------------------------------ SensorCache._extract *)
Inductive xres := XVals (l : list qn) | XCat (d : option dval) | XErr.

Definition decide_cat (p : props) (dt : dtype) : bool :=
  match p_cat p with Some b => b | None => negb (is_float dt) end.

(* single dummy sample, then the categorical/numeric split; np.interp of one node is constant *)
Definition finish_dummy (dt : dtype) (dv : dval) (p : props) (ts : list Q) : xres :=
  if decide_cat p dt then XCat (Some dv)
  else match dv with
       | VNum q => XVals (map (fun _ => q) ts)
       | VInt z => XVals (map (fun _ => Some (inject_Z z)) ts)
       | _ => XErr
       end.

(* props.get(time_offset, 0): the default is regenerated from SensorCache._extract *)
Definition offset_of (p : props) : Q := match p_off p with Some o => o | None => inject_Z sensor_offset_default end.

(* the cleaned samples the interpolation sees: raw samples are READ, shifted copy is cleaned *)
Definition usable (g : getter) (p : props) : list sample :=
  match g_samples g with
  | [] => []
  | raw => clean (g_has_status g) (shift (offset_of p) raw)
  end.

Definition extract_sensor (g : getter) (ts : list Q) (p : props) : xres :=
  match usable g p with
  | [] => let '(dt, dv) := dummy_value (p_init p) (g_dtype g) in finish_dummy dt dv p ts
  | cl => if decide_cat p (g_dtype g) then XCat None
          else match g_dtype g with
               | DFloat | DInt => XVals (map (fun x => Some (interp_d (nodes_of cl) x)) ts)
               | _ => XErr
               end
  end.

(* The code before the repair of F3 (`sensor_data.timestamp += time_offset` on the array owned by the getter):
   extraction ALSO rewrote the stored samples.  Kept to show that extract_pure / alias_consistent discriminate. *)
Definition store_after_extract (inplace : bool) (g : getter) (p : props) : getter :=
  if inplace then match g_samples g with
                  | [] => g
                  | raw => mkG (g_dtype g) (g_has_status g) (shift (offset_of p) raw)
                  end
  else g.

(* ------------------------------------------------------------------ the cache *)
Inductive entry := ERaw (gid : nat) | EVals (l : list qn) | ECat.
Record vsensor := mkV { v_names : list string; v_srcs : list string; v_fid : Z }.
Record cache := mkC { c_raw : list (string * entry); c_ts : list Q; c_keep : list bool;
                      c_props : pmap; c_virt : list vsensor; c_store : list getter }.

Fixpoint r_lookup (name : string) (r : list (string * entry)) : option entry :=
  match r with
  | [] => None
  | (k, v) :: t => if String.eqb k name then Some v else r_lookup name t
  end.
Fixpoint r_set (name : string) (v : entry) (r : list (string * entry)) : list (string * entry) :=
  match r with
  | [] => [(name, v)]
  | (k, w) :: t => if String.eqb k name then (k, v) :: t else (k, w) :: r_set name v t
  end.
Fixpoint r_del (name : string) (r : list (string * entry)) : list (string * entry) :=
  match r with
  | [] => []
  | (k, w) :: t => if String.eqb k name then t else (k, w) :: r_del name t
  end.

Definition with_raw (c : cache) r := mkC r (c_ts c) (c_keep c) (c_props c) (c_virt c) (c_store c).
Definition with_props (c : cache) pm := mkC (c_raw c) (c_ts c) (c_keep c) pm (c_virt c) (c_store c).
Definition with_keep (c : cache) k := mkC (c_raw c) (c_ts c) k (c_props c) (c_virt c) (c_store c).
Definition with_store (c : cache) s := mkC (c_raw c) (c_ts c) (c_keep c) (c_props c) (c_virt c) s.

Fixpoint set_nth_g (l : list getter) (i : nat) (g : getter) : list getter :=
  match l, i with
  | [], _ => []
  | _ :: t, O => g :: t
  | h :: t, S j => h :: set_nth_g t j g
  end.

Inductive res :=
| RVals (l : list qn) | RCat (d : option dval) | RGetter (gid : nat) | RGetters (l : list (nat * nat))
| RErrKey | RErrValue | RErrOther | ROk.

Definition sel (c : cache) (select : bool) (l : list qn) : list qn :=
  if select then select_mask (c_keep c) l else l.

Fixpoint index_of_name (x : string) (l : list string) : option nat :=
  match l with
  | [] => None
  | y :: t => if String.eqb x y then Some O else option_map S (index_of_name x t)
  end.

(* evaluate the source sensors of a virtual sensor in order (each is a cache.get(src) with default arguments) *)
Fixpoint eval_srcs (getf : cache -> string -> cache * res) (c : cache) (l : list string)
  : cache * (list (list qn) + res) :=
  match l with
  | [] => (c, inl [])
  | s :: t => match getf c s with
              | (c1, RVals v) => match eval_srcs getf c1 t with
                                 | (c2, inl vs) => (c2, inl (v :: vs))
                                 | (c2, inr e) => (c2, inr e)
                                 end
              | (c1, RErrKey) => (c1, inr RErrKey)
              | (c1, _) => (c1, inr RErrOther)
              end
  end.

Section Cache.
(* the virtual sensor functions are uninterpreted: function id, index of the produced name, source values, timestamps *)
Variable vf : Z -> nat -> list (list qn) -> list Q -> list qn.
(* false = the repaired code (faithful model); true = the code before the F3 repair *)
Variable inplace : bool.

Fixpoint store_all (c : cache) (v : vsensor) (vals : list (list qn)) (names : list string) (k : nat) : cache :=
  match names with
  | [] => c
  | n :: t => store_all (with_raw c (r_set n (EVals (vf (v_fid v) k vals (c_ts c))) (c_raw c))) v vals t (S k)
  end.

(* one level of SensorCache.get; `rec` = the recursive cache.get(src) available to virtual sensor functions
   (None when the recursion budget is exhausted: Python's RecursionError) *)
Definition get_body (rec : option (cache -> string -> cache * res))
  (c : cache) (name : string) (select extract : bool) (kw : props) : cache * res :=
  if select && negb extract then (c, RErrValue) else
  match r_lookup name (c_raw c) with
  | Some (ERaw gid) =>
      if extract then
        match nth_error (c_store c) gid with
        | None => (c, RErrOther)
        | Some g =>
            let '(p, pm') := get_props name (c_props c) kw in
            let c1 := with_store (with_props c pm') (set_nth_g (c_store c) gid (store_after_extract inplace g p)) in
            match extract_sensor g (c_ts c) p with
            | XVals l => (with_raw c1 (r_set name (EVals l) (c_raw c1)), RVals (sel c select l))
            | XCat d => (with_raw c1 (r_set name ECat (c_raw c1)), RCat d)
            | XErr => (c1, RErrOther)
            end
        end
      else (c, RGetter gid)
  | Some (EVals l) => (c, RVals (sel c select l))
  | Some ECat => (c, RCat None)
  | None =>
      match find (fun v => mem_string name (v_names v)) (c_virt c) with
      | None => (c, RErrKey)
      | Some v =>
          match rec with
          | None => (c, RErrOther)
          | Some getf =>
              match eval_srcs getf c (v_srcs v) with
              | (c1, inr e) => (c1, e)
              | (c1, inl vals) =>
                  let c2 := store_all c1 v vals (v_names v) O in
                  match index_of_name name (v_names v) with
                  | Some k => (c2, RVals (sel c2 select (vf (v_fid v) k vals (c_ts c2))))
                  | None => (c2, RErrOther)
                  end
              end
          end
      end
  end.

Fixpoint get (fuel : nat) : cache -> string -> bool -> bool -> props -> cache * res :=
  get_body (match fuel with
            | O => None
            | S fuel' => Some (fun c s => get fuel' c s false true p_empty)
            end).

(* ------------------------------------------------------------------ add_aliases *)
Fixpoint is_prefix (p s : list ascii) : bool :=
  match p, s with
  | [], _ => true
  | a :: p', b :: s' => Ascii.eqb a b && is_prefix p' s'
  | _ :: _, [] => false
  end.
Definition ends_with (s suffix : string) : bool :=
  is_prefix (rev (list_ascii_of_string suffix)) (rev (list_ascii_of_string s)).
(* str.replace(old, new) for non-empty old: leftmost non-overlapping occurrences *)
Fixpoint replace_all (fuel : nat) (old new s : list ascii) : list ascii :=
  match fuel with
  | O => s
  | S f => match s with
           | [] => []
           | a :: s' => if is_prefix old s then new ++ replace_all f old new (skipn (List.length old) s)
                        else a :: replace_all f old new s'
           end
  end.
Definition str_replace (s old new : string) : string :=
  let ls := list_ascii_of_string s in
  string_of_list_ascii (replace_all (S (List.length ls)) (list_ascii_of_string old) (list_ascii_of_string new) ls).

Definition add_aliases (c : cache) (alias original : string) : cache :=
  with_raw c (fold_left (fun r kv => if ends_with (fst kv) original
                                     then r_set (str_replace (fst kv) original alias) (snd kv) r else r)
                        (c_raw c) (c_raw c)).

(* ------------------------------------------------------------------ histories *)
Inductive op :=
| OGet (name : string) (select extract : bool) (kw : props)
| OItem (name : string)                              (* cache[name] *)
| OSetVals (name : string) (l : list qn)             (* cache[name] = array *)
| OSetGetter (name : string) (gid : nat)             (* cache[name] = getter *)
| OSetKeep (k : option (list bool))                  (* cache._set_keep(k) *)
| ODel (name : string)
| OAlias (alias original : string).

Definition fuel_of (c : cache) : nat := S (List.length (c_virt c)).

Definition step (c : cache) (o : op) : cache * res :=
  match o with
  | OGet n s e kw => get (fuel_of c) c n s e kw
  | OItem n => get (fuel_of c) c n true true p_empty
  | OSetVals n l => (with_raw c (r_set n (EVals l) (c_raw c)), ROk)
  | OSetGetter n g => (with_raw c (r_set n (ERaw g) (c_raw c)), ROk)
  | OSetKeep None => (c, ROk)
  | OSetKeep (Some k) => (with_keep c k, ROk)
  | ODel n => match r_lookup n (c_raw c) with
              | Some _ => (with_raw c (r_del n (c_raw c)), ROk)
              | None => (c, RErrKey)
              end
  | OAlias a o => (add_aliases c a o, ROk)
  end.

Fixpoint run_ops (c : cache) (ops : list op) : cache * list res :=
  match ops with
  | [] => (c, [])
  | o :: t => let '(c1, r) := step c o in let '(c2, rs) := run_ops c1 t in (c2, r :: rs)
  end.

(* ------------------------------------------------------------------ ConcatenatedSensorCache *)
Record ccache := mkCC { cc_parts : list cache; cc_props : pmap }.

Fixpoint gets (parts : list cache) (name : string) (select extract : bool) (kw : props)
  : list cache * list res :=
  match parts with
  | [] => ([], [])
  | c :: t => let '(c1, r) := get (fuel_of c) c name select extract kw in
              let '(t1, rs) := gets t name select extract kw in (c1 :: t1, r :: rs)
  end.

Definition is_key (r : res) : bool := match r with RErrKey => true | _ => false end.
Definition is_getter (r : res) : bool := match r with RGetter _ => true | _ => false end.
Definition is_vals (r : res) : bool := match r with RVals _ => true | _ => false end.
Definition is_cat (r : res) : bool := match r with RCat _ => true | _ => false end.
Definition is_hard_err (r : res) : bool :=
  match r with RErrValue | RErrOther | ROk | RGetters _ => true | _ => false end.

(* fill the parts that lack the sensor: cache[name] = _extract(dummy, cache.timestamps, ...); cache.get(name, select) *)
Fixpoint fill (parts : list cache) (rs : list res) (name : string) (select : bool) (x : cache -> xres)
  : list cache * list res :=
  match parts, rs with
  | c :: t, r :: rt =>
      let '(t1, rs1) := fill t rt name select x in
      if is_key r then
        match x c with
        | XVals l => (with_raw c (r_set name (EVals l) (c_raw c)) :: t1, RVals (sel c select l) :: rs1)
        | XCat d => (with_raw c (r_set name ECat (c_raw c)) :: t1, RCat d :: rs1)
        | XErr => (c :: t1, RErrOther :: rs1)
        end
      else (c :: t1, r :: rs1)
  | _, _ => (parts, rs)
  end.

Fixpoint concat_vals (rs : list res) : option (list qn) :=
  match rs with
  | [] => Some []
  | RVals l :: t => option_map (app l) (concat_vals t)
  | _ => None
  end.

Fixpoint getter_ids (k : nat) (rs : list res) : list (nat * nat) :=
  match rs with
  | [] => []
  | RGetter g :: t => (k, g) :: getter_ids (S k) t
  | _ :: t => getter_ids (S k) t
  end.

Definition cget (cc : ccache) (name : string) (select extract : bool) (kw : props) : ccache * res :=
  if select && negb extract then (cc, RErrValue) else
  let '(p1, r1) := gets (cc_parts cc) name select extract kw in
  if existsb is_hard_err r1 then (mkCC p1 (cc_props cc), RErrOther) else
  if forallb is_key r1 then (mkCC p1 (cc_props cc), RErrKey) else
  let again := negb extract && negb (forallb (fun r => is_key r || is_getter r) r1) in
  let '(p2, r2) := if again then gets p1 name select true kw else (p1, r1) in
  if negb (extract || again) then (mkCC p2 (cc_props cc), RGetters (getter_ids O r2)) else
  if existsb is_hard_err r2 then (mkCC p2 (cc_props cc), RErrOther) else
  let '(p, pm') := get_props name (cc_props cc) kw in
  let '(p3, r3) :=
    if existsb is_key r2 then
      if existsb is_cat r2 then fill p2 r2 name select (fun _ => XCat None)
      else (* common_dtype of float arrays = float64 *)
        let '(dt, dv) := dummy_value (p_init p) DFloat in
        fill p2 r2 name select (fun c => finish_dummy dt dv p (c_ts c))
    else (p2, r2) in
  let cc' := mkCC p3 pm' in
  if existsb is_cat r3 then (cc', RCat None)
  else match concat_vals r3 with
       | Some l => (cc', RVals l)
       | None => (cc', RErrOther)
       end.

(* _set_keep(keep): each part gets its segment of the global mask *)
Fixpoint cset_keep (parts : list cache) (k : list bool) : list cache :=
  match parts with
  | [] => []
  | c :: t => with_keep c (firstn (List.length (c_ts c)) k) :: cset_keep t (skipn (List.length (c_ts c)) k)
  end.
(* cache[name] = array: split at the segment boundaries *)
Fixpoint cset_vals (parts : list cache) (name : string) (l : list qn) : list cache :=
  match parts with
  | [] => []
  | c :: t => with_raw c (r_set name (EVals (firstn (List.length (c_ts c)) l)) (c_raw c))
              :: cset_vals t name (skipn (List.length (c_ts c)) l)
  end.

Inductive cop :=
| CGet (name : string) (select extract : bool) (kw : props)
| CItem (name : string)
| CSetVals (name : string) (l : list qn)
| CSetKeep (k : option (list bool)).

Definition cstep (cc : ccache) (o : cop) : ccache * res :=
  match o with
  | CGet n s e kw => cget cc n s e kw
  | CItem n => cget cc n true true p_empty
  | CSetVals n l => (mkCC (cset_vals (cc_parts cc) n l) (cc_props cc), ROk)
  | CSetKeep None => (cc, ROk)
  | CSetKeep (Some k) => (mkCC (cset_keep (cc_parts cc) k) (cc_props cc), ROk)
  end.

Fixpoint crun (cc : ccache) (ops : list cop) : ccache * list res :=
  match ops with
  | [] => (cc, [])
  | o :: t => let '(c1, r) := cstep cc o in let '(c2, rs) := crun c1 t in (c2, r :: rs)
  end.

End Cache.

(* ------------------------------------------------------------------ wire *)
Definition to_Q (x : sx) : Q :=
  match x with
  | L [I n; I (Zpos d)] => Qmake n d
  | _ => 0
  end.
Definition of_Q (q : Q) : sx := let r := Qred q in L [I (Qnum r); I (Zpos (Qden r))].
Definition to_qn (x : sx) : qn := match x with L [] => None | _ => Some (to_Q x) end.
Definition of_qn (q : qn) : sx := match q with None => L [] | Some q => of_Q q end.
Definition to_dtype (x : sx) : dtype :=
  match x with I 0 => DFloat | I 1 => DInt | I 2 => DStr | I 3 => DBool | _ => DObj end.
Definition of_dtype (d : dtype) : Z :=
  match d with DFloat => 0 | DInt => 1 | DStr => 2 | DBool => 3 | DObj => 4 end.
Definition to_sample (x : sx) : sample :=
  match x with
  | L [t; v; st] => mkS (to_Q t) (to_Q v) (to_string st)
  | _ => mkS 0 0 ""
  end.
Definition of_sample (s : sample) : sx := L [of_Q (s_t s); of_Q (s_v s); of_string (s_st s)].
Definition to_getter (x : sx) : getter :=
  match x with
  | L [d; h; l] => mkG (to_dtype d) (to_bool h) (map to_sample (to_list l))
  | _ => mkG DFloat false []
  end.
Definition to_opt {A} (f : sx -> A) (x : sx) : option A :=
  match x with L [y] => Some (f y) | _ => None end.
Definition to_ival (x : sx) : ival :=
  match x with L [I 0; q] => IVFloat (to_Q q) | L [I 1; d] => IVOther (to_dtype d) | _ => IVOther DObj end.
Definition to_props (x : sx) : props :=
  match x with
  | L [o; c; i] => mkP (to_opt to_Q o) (to_opt to_bool c) (to_opt to_ival i)
  | _ => p_empty
  end.
Definition to_pmap (x : sx) : pmap :=
  map (fun e => match e with L [k; p] => (to_string k, to_props p) | _ => (""%string, p_empty) end) (to_list x).
Definition to_entry (x : sx) : string * entry :=
  match x with
  | L [n; I 0; g] => (to_string n, ERaw (to_nat g))
  | L [n; I 1; l] => (to_string n, EVals (map to_qn (to_list l)))
  | L [n; _; _] => (to_string n, ECat)
  | _ => (""%string, ECat)
  end.
Definition to_vsensor (x : sx) : vsensor :=
  match x with
  | L [ns; ss; I f] => mkV (to_strings ns) (to_strings ss) f
  | _ => mkV [] [] 0
  end.
Definition to_cache (x : sx) : cache :=
  match x with
  | L [st; raw; ts; keep; pm; vs] =>
      mkC (map to_entry (to_list raw)) (map to_Q (to_list ts)) (to_bools keep) (to_pmap pm)
          (map to_vsensor (to_list vs)) (map to_getter (to_list st))
  | _ => mkC [] [] [] [] [] []
  end.
Definition to_op (x : sx) : op :=
  match x with
  | L [I 0; n; s; e; kw] => OGet (to_string n) (to_bool s) (to_bool e) (to_props kw)
  | L [I 1; n; l] => OSetVals (to_string n) (map to_qn (to_list l))
  | L [I 2; n; g] => OSetGetter (to_string n) (to_nat g)
  | L [I 3; k] => OSetKeep (to_opt to_bools k)
  | L [I 4; n] => ODel (to_string n)
  | L [I 5; a; o] => OAlias (to_string a) (to_string o)
  | L [I 6; n] => OItem (to_string n)
  | _ => OSetKeep None
  end.
Definition to_cop (x : sx) : cop :=
  match x with
  | L [I 0; n; s; e; kw] => CGet (to_string n) (to_bool s) (to_bool e) (to_props kw)
  | L [I 1; n; l] => CSetVals (to_string n) (map to_qn (to_list l))
  | L [I 3; k] => CSetKeep (to_opt to_bools k)
  | L [I 6; n] => CItem (to_string n)
  | _ => CSetKeep None
  end.
Definition of_dval (d : dval) : sx :=
  match d with
  | VNum q => L [I 0; of_qn q]
  | VInt z => L [I 1; I z]
  | VEmptyStr => L [I 2]
  | VFalse => L [I 3]
  | VNoneObj => L [I 4]
  | VGiven d => L [I 5; I (of_dtype d)]
  end.
Definition of_res (r : res) : sx :=
  match r with
  | RVals l => L [I 0; L (map of_qn l)]
  | RCat None => L [I 1]
  | RCat (Some d) => L [I 1; of_dval d]
  | RGetter g => L [I 2; of_nat g]
  | RGetters l => L [I 5; L (map (fun kg => L [of_nat (fst kg); of_nat (snd kg)]) l)]
  | RErrKey => L [I 3; I 0]
  | RErrValue => L [I 3; I 1]
  | RErrOther => L [I 3; I 2]
  | ROk => L [I 4]
  end.
Definition of_store (l : list getter) : sx := L (map (fun g => L (map of_sample (g_samples g))) l).
Definition of_rawkeys (c : cache) : sx :=
  L (map (fun kv => L [of_string (fst kv);
                       I (match snd kv with ERaw _ => 0 | EVals _ => 1 | ECat => 2 end)]) (c_raw c)).

(* the virtual-sensor functions used by the correspondence (the theorems hold for every vf):
   fid = 1000*a + b (0 <= b < 1000): produced name k gets  a*(k+1) * sum_of_sources + b/4 * timestamp;  NaN propagates *)
Definition qn_add (a b : qn) : qn := match a, b with Some x, Some y => Some (x + y) | _, _ => None end.
Fixpoint sum_cols (vals : list (list qn)) (n : nat) : list qn :=
  match vals with
  | [] => repeat (Some 0) n
  | v :: t => map (fun ab => qn_add (fst ab) (snd ab)) (combine v (sum_cols t n))
  end.
Definition wire_vf (fid : Z) (k : nat) (vals : list (list qn)) (ts : list Q) : list qn :=
  let a := inject_Z ((fid / 1000) * Z.of_nat (S k)) in
  let b := inject_Z (fid mod 1000) / 4 in
  map (fun st => match fst st with Some s => Some (a * s + b * snd st) | None => None end)
      (combine (sum_cols vals (List.length ts)) ts).

(* (1 inplace cache ops)            -> ((results...) final_store final_raw_kinds)
   (2 has_status off samples ts)    -> ((model values) (spec values) (model cleaned) (spec survivors))
   (3 inplace (caches...) ccprops cops) -> ((results...) (final stores...))
   (4 name pmap kw)                 -> (off cat init) merged properties  *)
Definition of_props (p : props) : sx :=
  L [match p_off p with Some q => L [of_Q q] | None => L [] end;
     match p_cat p with Some b => L [of_bool b] | None => L [] end;
     match p_init p with Some (IVFloat q) => L [L [I 0; of_Q q]] | Some (IVOther d) => L [L [I 1; I (of_dtype d)]]
                       | None => L [] end].

Definition wire_12 (x : sx) : sx :=
  match x with
  | L [I 1; ip; c; ops] =>
      let '(c', rs) := run_ops wire_vf (to_bool ip) (to_cache c) (map to_op (to_list ops)) in
      L [L (map of_res rs); of_store (c_store c'); of_rawkeys c']
  | L [I 2; hs; off; l; ts] =>
      let raw := map to_sample (to_list l) in
      let cl := clean (to_bool hs) (shift (to_Q off) raw) in
      let sv := spec_survivors (to_bool hs) (shift (to_Q off) raw) in
      let tq := map to_Q (to_list ts) in
      L [L (map (fun t => of_qn (interp (nodes_of cl) t)) tq);
         L (map (fun t => of_qn (spec_value sv t)) tq);
         L (map of_sample cl); L (map of_sample sv)]
  | L [I 3; ip; cs; pm; ops] =>
      let '(cc', rs) := crun wire_vf (to_bool ip) (mkCC (map to_cache (to_list cs)) (to_pmap pm))
                             (map to_cop (to_list ops)) in
      L [L (map of_res rs); L (map (fun c => of_store (c_store c)) (cc_parts cc'))]
  | L [I 4; n; pm; kw] => of_props (fst (get_props (to_string n) (to_pmap pm) (to_props kw)))
  | _ => sx_err
  end.
