(* C11: the categorical container katdal/categorical.py:CategoricalData and the module functions
   concatenate_categorical / unique_in_order.  Definitions only (model, spec, wire).

   cd = { uv : unique values;  idx : one index into uv per event;  ev : event dumps, one more than idx,
          the last one being the number of dumps N }.
   Abstraction function: expand cd = the explicit per-dump list of values (dumps hd ev .. N-1).

   The model follows the code: numpy fancy indexing / boolean masks become filter on zipped lists,
   searchsorted(side='right') on a sorted array is "number of elements <= x", side='left' is
   "number of elements < x", Python exceptions are None.  Everything is generic in the value type V
   (with a boolean equality and a default used only by nth); on the wire V = Z (value ids). *)
From Coq Require Import ZArith List Bool Arith Lia.
From KV Require Import Base.Sx.
Import ListNotations.
Open Scope nat_scope.

(* ---------- per-dump expansion of (events, one value per event) ---------- *)
Fixpoint expand_ev {A} (s : nat) (r : list nat) (vals : list A) : list A :=
  match r, vals with
  | e :: r', v :: vals' => repeat v (e - s) ++ expand_ev e r' vals'
  | _, _ => []
  end.
Definition expand_evs {A} (ev : list nat) (vals : list A) : list A :=
  match ev with [] => [] | s :: r => expand_ev s r vals end.

(* strictly increasing / non-decreasing event lists, in the same (start, rest) shape as expand_ev *)
Fixpoint chain (R : nat -> nat -> Prop) (s : nat) (r : list nat) : Prop :=
  match r with [] => True | e :: r' => R s e /\ chain R e r' end.
Definition incr (l : list nat) : Prop := match l with [] => True | s :: r => chain lt s r end.
Definition nondecr (l : list nat) : Prop := match l with [] => True | s :: r => chain le s r end.

(* searchsorted on a sorted array *)
Definition count_le (l : list nat) (p : nat) : nat := length (filter (fun e => e <=? p) l).  (* side='right' *)
Definition count_lt (l : list nat) (p : nat) : nat := length (filter (fun e => e <? p) l).   (* side='left'  *)

Definition absd (a b : nat) : nat := (a - b) + (b - a).

(* numpy argmin: index of the FIRST minimum *)
Fixpoint argmin_from (l : list nat) (pos besti bestv : nat) : nat :=
  match l with
  | [] => besti
  | x :: t => if x <? bestv then argmin_from t (S pos) pos x else argmin_from t (S pos) besti bestv
  end.
Definition argmin (l : list nat) : nat := match l with [] => 0 | h :: t => argmin_from t 1 0 h end.
Definition list_min (l : list nat) : nat := match l with [] => 0 | h :: t => fold_left Nat.min t h end.

(* the segment start nearest to dump e (first minimum of |segs - e|) *)
Definition nearest (segs : list nat) (e : nat) : nat := nth (argmin (map (absd e) segs)) segs 0.

Definition mem_nat (i : nat) (l : list nat) : bool := existsb (Nat.eqb i) l.
Fixpoint index_nat (i : nat) (l : list nat) : nat :=
  match l with [] => 0 | x :: t => if x =? i then 0 else S (index_nat i t) end.
(* np.unique: sorted distinct elements *)
Definition sorted_unique (l : list nat) : list nat := filter (fun i => mem_nat i l) (seq 0 (S (list_max l))).

(* ---------- Python slice.indices (PySlice_AdjustIndices) and range ---------- *)
Open Scope Z_scope.
Definition slice_adjust (n : Z) (start stop step : option Z) : option (Z * Z * Z) :=
  let st := match step with None => 1 | Some s => s end in
  if st =? 0 then None else
  let lower := if st <? 0 then -1 else 0 in
  let upper := if st <? 0 then n - 1 else n in
  let clamp v := if v <? 0 then Z.max (v + n) lower else Z.min v upper in
  let s0 := match start with None => if st <? 0 then upper else lower | Some v => clamp v end in
  let s1 := match stop with None => if st <? 0 then lower else upper | Some v => clamp v end in
  Some (s0, s1, st).
Definition range_len (s0 s1 st : Z) : Z :=
  if 0 <? st then (if s0 <? s1 then (s1 - s0 - 1) / st + 1 else 0)
  else (if s1 <? s0 then (s0 - s1 - 1) / (- st) + 1 else 0).
Definition py_range (s0 s1 st : Z) : list Z :=
  map (fun i => s0 + Z.of_nat i * st) (seq 0 (Z.to_nat (range_len s0 s1 st))).
Definition slice_range (n : Z) (start stop step : option Z) : option (list Z) :=
  match slice_adjust n start stop step with
  | Some (s0, s1, st) => Some (py_range s0 s1 st)
  | None => None
  end.
Close Scope Z_scope.
Open Scope nat_scope.

Fixpoint true_positions (m : list bool) (pos : nat) : list nat :=
  match m with [] => [] | b :: t => if b then pos :: true_positions t (S pos) else true_positions t (S pos) end.

Fixpoint all_some {A} (l : list (option A)) : option (list A) :=
  match l with
  | [] => Some []
  | None :: _ => None
  | Some a :: t => match all_some t with Some r => Some (a :: r) | None => None end
  end.

(* keys of __getitem__ *)
Inductive key := KInt (z : Z) | KSlice (a b c : option Z) | KMask (m : list bool) | KList (l : list Z).

Section Cat.
Context {V : Type} (veqb : V -> V -> bool) (dflt : V).

Record cd := mk { uv : list V; idx : list nat; ev : list nat }.

Definition ndumps (c : cd) : nat := last (ev c) 0.
Definition vals (c : cd) : list V := map (fun i => nth i (uv c) dflt) (idx c).
(* THE SPEC OBJECT: explicit per-dump list of values *)
Definition expand (c : cd) : list V := expand_evs (ev c) (vals c).

(* THE INVARIANT: events strictly increasing, one more event than indices (the last one is the number of
   dumps, ndumps), indices refer to unique values, unique values distinct *)
Definition WF (c : cd) : Prop :=
  incr (ev c) /\ length (ev c) = S (length (idx c)) /\
  Forall (fun i => i < length (uv c)) (idx c) /\ NoDup (uv c).
Definition start0 (c : cd) : Prop := hd 0 (ev c) = 0.

(* list.index with == *)
Fixpoint index_of (v : V) (l : list V) : option nat :=
  match l with
  | [] => None
  | x :: t => if veqb x v then Some 0 else match index_of v t with Some i => Some (S i) | None => None end
  end.
Definition memv (v : V) (l : list V) : bool := existsb (fun x => veqb x v) l.

(* unique_in_order: first occurrences, original order *)
Fixpoint uio_from (seen : list V) (l : list V) : list V :=
  match l with
  | [] => []
  | x :: t => if memv x seen then uio_from seen t else x :: uio_from (x :: seen) t
  end.
Definition unique_in_order (l : list V) : list V := uio_from [] l.
Definition inverse_of (u : list V) (l : list V) : list nat :=
  map (fun x => match index_of x u with Some i => i | None => 0 end) l.

(* CategoricalData.__init__ *)
Definition make (values : list V) (events : list nat) : cd :=
  let u := unique_in_order values in mk u (inverse_of u values) events.

(* _lookup: searchsorted(side='right') - 1, IndexError outside the event range *)
Definition lookup (c : cd) (p : nat) : option nat :=
  let k := count_le (ev c) p in
  if (k =? 0) || (length (idx c) <=? k - 1) then None else nth_error (idx c) (k - 1).
Definition lookupZ (c : cd) (z : Z) : option nat :=
  if (z <? 0)%Z then None else lookup c (Z.to_nat z).

Inductive gres := GVal (v : V) | GList (l : list V) | GErr.
Definition glist (c : cd) (ps : list Z) : gres :=
  match all_some (map (lookupZ c) ps) with
  | Some is => GList (map (fun i => nth i (uv c) dflt) is)
  | None => GErr
  end.
(* __getitem__ ; a mask has one entry per dump; a bool sequence of any other length is NOT treated as a mask by
   the code but as dump indices 0/1 (out of the documented domain, modelled as the code behaves) *)
Definition getitem (c : cd) (k : key) : gres :=
  match k with
  | KInt z => match lookupZ c z with Some i => GVal (nth i (uv c) dflt) | None => GErr end
  | KSlice a b s => match slice_range (Z.of_nat (ndumps c)) a b s with Some ps => glist c ps | None => GErr end
  | KMask m => if length m =? ndumps c then glist c (map Z.of_nat (true_positions m 0))
               else glist c (map (fun b : bool => if b then 1%Z else 0%Z) m)   (* bools used as dump indices 0/1 *)
  | KList l => glist c l
  end.

(* _bool_per_dump([f value for value in unique_values]) : entries for dumps hd ev .. N-1
   (the entries before the first event are uninitialised memory in the implementation) *)
Definition cmp (c : cd) (f : V -> bool) : list bool :=
  expand_evs (ev c) (map (fun i => nth i (map f (uv c)) false) (idx c)).

(* segments(): (start, end, value) *)
Definition segments (c : cd) : list (nat * nat * V) :=
  combine (combine (removelast (ev c)) (tl (ev c))) (vals c).

(* add(event, value) ; value None = duplicate the current value *)
Definition add (c : cd) (e : nat) (val : option V) : option cd :=
  let '(uv', vi) :=
    match val with
    | Some v => match index_of v (uv c) with
                | Some i => (uv c, Some i)
                | None => (uv c ++ [v], Some (length (uv c)))
                end
    | None => (uv c, lookup c e)
    end in
  match vi with
  | None => None
  | Some vi =>
      let k := count_lt (ev c) e in
      match nth_error (ev c) k with
      | None => None
      | Some x =>
          let after := if x =? e then S k else k in
          Some (mk uv' (firstn k (idx c) ++ [vi] ++ skipn after (idx c))
                       (firstn k (ev c) ++ [e] ++ skipn after (ev c)))
      end
  end.

(* remove(value) *)
Definition remove (c : cd) (v : V) : cd :=
  match index_of v (uv c) with
  | None => c
  | Some j =>
      let kept := filter (fun p => negb (snd p =? j)) (combine (removelast (ev c)) (idx c)) in
      mk (firstn j (uv c) ++ skipn (S j) (uv c))
         (map (fun p => if j <=? snd p then snd p - 1 else snd p) kept)
         (map fst kept ++ [ndumps c])
  end.

(* remove_repeats(): keep event k iff k = 0 or idx[k] <> idx[k-1] *)
Fixpoint rr_aux (prev : option nat) (pairs : list (nat * nat)) : list (nat * nat) :=
  match pairs with
  | [] => []
  | (e, i) :: t =>
      if match prev with Some j => i =? j | None => false end
      then rr_aux (Some i) t else (e, i) :: rr_aux (Some i) t
  end.
Definition remove_repeats (c : cd) : option cd :=
  match idx c with
  | [] => None     (* indices[[0]] on an empty array: IndexError *)
  | _ => let kept := rr_aux None (combine (ev c) (idx c)) in
         Some (mk (uv c) (map snd kept) (map fst kept ++ [ndumps c]))
  end.

(* add_unmatched(segments, match_dist) *)
Definition add_unmatched (c : cd) (segs : list nat) (dist : nat) : cd :=
  let unmatched := filter (fun s => dist <? list_min (map (absd s) (ev c))) segs in
  fold_left (fun c s => match add c s None with Some c' => c' | None => c end) unmatched c.

(* align(segments) *)
Definition align (c : cd) (segs : list nat) : option cd :=
  match segs with
  | [] => None     (* argmin of an empty axis: ValueError *)
  | _ =>
      let proj := map (nearest segs) (ev c) in
      let kept := filter (fun t => fst (fst t) <? snd (fst t)) (combine (combine proj (tl proj)) (idx c)) in
      let idxf := map snd kept in
      let subset := sorted_unique idxf in
      Some (mk (map (fun i => nth i (uv c) dflt) subset)
               (map (fun i => index_nat i subset) idxf)
               (map (fun t => fst (fst t)) kept ++ [last proj 0]))
  end.

(* partition(segments) *)
Definition part (c : cd) (start end_ init : nat) : cd :=
  let sel := filter (fun p => (start <=? fst p) && (fst p <? end_)) (combine (removelast (ev c)) (idx c)) in
  let evs := map (fun p => fst p - start) sel in
  let ids := map snd sel in
  match evs with
  | 0 :: _ => mk (uv c) ids (evs ++ [end_ - start])
  | _ => mk (uv c) (init :: ids) (0 :: evs ++ [end_ - start])
  end.
Definition partition (c : cd) (segs : list nat) : list cd :=
  let events := removelast (ev c) in
  let starts := removelast segs in
  let inits := map (fun s => nth (Nat.min (count_le events s - 1) (length events - 1)) (idx c) 0) starts in
  map (fun t => part c (fst (fst t)) (snd (fst t)) (snd t)) (combine (combine starts (tl segs)) inits).

(* concatenate_categorical(split_data, allow_repeats) *)
Fixpoint concat_aux (u : list V) (off : nat) (parts : list cd) : list nat * list nat * nat :=
  match parts with
  | [] => ([], [], off)
  | p :: t =>
      let '(i, e, tot) := concat_aux u (off + ndumps p) t in
      (inverse_of u (vals p) ++ i, map (Nat.add off) (removelast (ev p)) ++ e, tot)
  end.
Definition concatenate (parts : list cd) (allow_repeats : bool) : option cd :=
  match parts with
  | [] => None        (* np.concatenate of no arrays: ValueError *)
  | [p] => Some p
  | _ =>
      let u := unique_in_order (flat_map uv parts) in
      let '(i, e, tot) := concat_aux u 0 parts in
      let c := mk u i (e ++ [tot]) in
      if allow_repeats then Some c else remove_repeats c
  end.

(* ---------- SPEC side: what the documentation says, on the explicit per-dump list X ---------- *)
(* Python indexing of a list of length n *)
Definition nth_Z (X : list V) (z : Z) : option V :=
  if (z <? 0)%Z then None else nth_error X (Z.to_nat z).
Definition spec_getitem (X : list V) (k : key) : gres :=
  match k with
  | KInt z => match nth_Z X z with Some v => GVal v | None => GErr end
  | KSlice a b s =>
      match slice_range (Z.of_nat (length X)) a b s with
      | Some ps => match all_some (map (nth_Z X) ps) with Some l => GList l | None => GErr end
      | None => GErr
      end
  | KMask m => if length m =? length X
               then GList (map snd (filter fst (combine m X))) else GErr
  | KList l => match all_some (map (nth_Z X) l) with Some r => GList r | None => GErr end
  end.
Definition spec_cmp (X : list V) (f : V -> bool) : list bool := map f X.
(* add: the new value holds from dump e until the next existing event (nx); positions relative to dump 0 *)
Definition next_event (evs : list nat) (e : nat) : nat := nth (count_le evs e) evs 0.
Definition spec_add (X : list V) (evs : list nat) (e : nat) (val : option V) : list V :=
  match val with
  | None => X
  | Some v => let nx := next_event evs e in
              let s := hd 0 evs in
              if e <? s then repeat v (s - e) ++ X
              else firstn (e - s) X ++ repeat v (nx - e) ++ skipn (nx - s) X
  end.
(* remove: leading dumps of the removed value disappear, later ones take the preceding kept value *)
Fixpoint ffill (v : V) (last : option V) (X : list V) : list V :=
  match X with
  | [] => []
  | x :: t => if veqb x v
              then match last with None => ffill v None t | Some y => y :: ffill v last t end
              else x :: ffill v (Some x) t
  end.
Definition spec_remove (X : list V) (v : V) : list V := ffill v None X.
(* align: same values per event, every boundary replaced by its nearest segment start *)
Definition spec_align (evs : list nat) (values : list V) (segs : list nat) : list V :=
  expand_evs (map (nearest segs) evs) values.
(* partition: cut the per-dump list at the segment boundaries *)
Definition spec_partition (X : list V) (segs : list nat) : list (list V) :=
  map (fun se => firstn (snd se - fst se) (skipn (fst se) X)) (combine (removelast segs) (tl segs)).

(* ---------- histories: sequences of mutating operations ---------- *)
Inductive mop :=
| OAdd (e : nat) (v : option V) | ORemove (v : V) | OAddUnmatched (segs : list nat) (d : nat)
| OAlign (segs : list nat) | ORemoveRepeats | OPartConcat (segs : list nat) (allow_repeats : bool).
Definition apply_op (c : cd) (o : mop) : option cd :=
  match o with
  | OAdd e v => add c e v
  | ORemove v => Some (remove c v)
  | OAddUnmatched segs d => Some (add_unmatched c segs d)
  | OAlign segs => align c segs
  | ORemoveRepeats => remove_repeats c
  | OPartConcat segs ar => concatenate (partition c segs) ar
  end.
Fixpoint run_ops (c : cd) (ops : list mop) : option cd :=
  match ops with
  | [] => Some c
  | o :: t => match apply_op c o with Some c' => run_ops c' t | None => None end
  end.
(* documented argument domain of an operation on a series of N dumps *)
Definition op_ok (N : nat) (o : mop) : Prop :=
  match o with
  | OAdd e (Some _) => e < N
  | OAlign segs => incr segs /\ In N segs
  | OPartConcat segs _ => False      (* needs a series starting at dump 0: see partition_concat_id *)
  | _ => True
  end.

End Cat.

Arguments mk {V}.
Arguments uv {V}.
Arguments idx {V}.
Arguments ev {V}.
Arguments GVal {V}.
Arguments GList {V}.
Arguments GErr {V}.
Arguments OAdd {V}.
Arguments ORemove {V}.
Arguments OAddUnmatched {V}.
Arguments OAlign {V}.
Arguments ORemoveRepeats {V}.
Arguments OPartConcat {V}.

(* ---------- wire (V = Z value ids) ---------- *)
Definition zd : Z := (-1)%Z.
Definition cdZ := @cd Z.
Definition to_optZ' (x : sx) : option Z := to_optZ x.
Definition to_key (x : sx) : key :=
  match x with
  | L [I 0%Z; I z] => KInt z
  | L [I 1%Z; a; b; c] => KSlice (to_optZ a) (to_optZ b) (to_optZ c)
  | L [I 2%Z; m] => KMask (to_bools m)
  | L [I 3%Z; l] => KList (to_Zs l)
  | _ => KInt (-1)%Z
  end.
Definition of_gres (g : @gres Z) : sx :=
  match g with GVal v => L [I 0%Z; I v] | GList l => L [I 1%Z; of_Zs l] | GErr => L [I 2%Z] end.
Definition of_cd (c : cdZ) : sx :=
  L [of_Zs (uv c); of_nats (idx c); of_nats (ev c); of_Zs (expand zd c)].
Definition cmp_fun (op v : Z) : Z -> bool :=
  fun x => match op with
           | 0 => Z.eqb x v | 1 => negb (Z.eqb x v) | 2 => Z.ltb x v
           | 3 => Z.gtb x v | 4 => Z.leb x v | _ => Z.geb x v
           end%Z.

(* one operation: returns (new state or None on error, output) ;
   output = (tag model-observable spec-observable) *)
Definition step (c : cdZ) (op : sx) : option cdZ * sx :=
  let X := expand zd c in
  match op with
  | L [I 0%Z; k] =>       (* getitem *)
      (Some c, L [I 0%Z; of_gres (getitem zd c (to_key k)); of_gres (spec_getitem X (to_key k))])
  | L [I 1%Z; I o; I v] => (* comparison *)
      (Some c, L [I 1%Z; of_bools (cmp c (cmp_fun o v)); of_bools (spec_cmp X (cmp_fun o v))])
  | L [I 2%Z; e; v] =>    (* add *)
      match add Z.eqb c (to_nat e) (to_optZ v) with
      | Some c' => (Some c', L [I 2%Z; of_cd c'; of_Zs (spec_add X (ev c) (to_nat e) (to_optZ v))])
      | None => (None, L [I (-1)%Z])
      end
  | L [I 3%Z; I v] =>     (* remove *)
      let c' := remove Z.eqb c v in (Some c', L [I 3%Z; of_cd c'; of_Zs (spec_remove Z.eqb X v)])
  | L [I 4%Z; segs; d] => (* add_unmatched *)
      let c' := add_unmatched Z.eqb c (to_nats segs) (to_nat d) in (Some c', L [I 4%Z; of_cd c'; of_Zs X])
  | L [I 5%Z; segs] =>    (* align *)
      match align zd c (to_nats segs) with
      | Some c' => (Some c', L [I 5%Z; of_cd c'; of_Zs (spec_align (ev c) (vals zd c) (to_nats segs))])
      | None => (None, L [I (-1)%Z])
      end
  | L [I 6%Z; segs; ar; repl] =>  (* partition, then concatenate; optionally continue with the result *)
      let ps := partition c (to_nats segs) in
      match concatenate Z.eqb zd ps (to_bool ar) with
      | Some cc => (Some (if to_bool repl then cc else c),
                    L [I 6%Z; L (map of_cd ps); of_cd cc;
                       L (map of_Zs (spec_partition X (to_nats segs))); of_Zs X])
      | None => (None, L [I (-1)%Z])
      end
  | L [I 7%Z] =>          (* remove_repeats *)
      match remove_repeats c with
      | Some c' => (Some c', L [I 7%Z; of_cd c'; of_Zs X])
      | None => (None, L [I (-1)%Z])
      end
  | L [I 9%Z; vs2; es2; ar; before] =>   (* concatenate with an independent series (before or after) *)
      let c2 := make Z.eqb (to_Zs vs2) (to_nats es2) in
      let X2 := expand zd c2 in
      let ps := if to_bool before then [c2; c] else [c; c2] in
      match concatenate Z.eqb zd ps (to_bool ar) with
      | Some cc => (Some cc, L [I 9%Z; of_cd cc; of_Zs (if to_bool before then X2 ++ X else X ++ X2)])
      | None => (None, L [I (-1)%Z])
      end
  | L [I 10%Z; segs; I v] =>   (* partition, then remove v from the FIRST part only: siblings and parent unchanged *)
      match partition c (to_nats segs) with
      | p0 :: rest => (Some c, L [I 10%Z; of_cd (remove Z.eqb p0 v); L (map of_cd rest); of_cd c])
      | [] => (None, L [I (-1)%Z])
      end
  | L [I 8%Z] =>          (* segments *)
      (Some c, L [I 8%Z; L (map (fun t => L [of_nat (fst (fst t)); of_nat (snd (fst t)); I (snd t)]) (segments zd c))])
  | _ => (None, sx_err)
  end.

Fixpoint steps (c : cdZ) (ops : list sx) : list sx :=
  match ops with
  | [] => []
  | op :: t => match step c op with
               | (Some c', o) => o :: steps c' t
               | (None, o) => [o]
               end
  end.

(* (values events ops) -> (initial-state out_1 ... out_k)   (stops after the first error) *)
Definition wire_11 (x : sx) : sx :=
  match x with
  | L [vs; es; L ops] =>
      let c := make Z.eqb (to_Zs vs) (to_nats es) in
      L (of_cd c :: steps c ops)
  | _ => sx_err
  end.

(* Python slice.indices + range on its own (exhaustive comparison with CPython in the harness) *)
Definition wire_111 (x : sx) : sx :=
  match x with
  | L [I n; a; b; c] =>
      match slice_range n (to_optZ a) (to_optZ b) (to_optZ c) with
      | Some l => L [of_Zs l] | None => L [] end
  | _ => sx_err
  end.
