(* C04: the helper functions of katdal/lazy_indexer.py re-assembled from the decision expressions the translator
   regenerates from the source at every run (Gen/Generated.v: c04_r2s_*, c04_oindex_axis_step, c04_cull_test).
   Proofs/DaskGenP.v shows that these are the hand-written model of Model/DaskIdx.v / Model/DaskJoint.v, so every
   theorem about d_range_to_slice, d_oindex_seq, d_getitem and j_culled is a theorem about the expressions in the source. *)
From Coq Require Import ZArith List Bool.
From KV Require Import Base.Sx Gen.Generated Model.DaskIdx Model.DaskJoint.
Import ListNotations.
Open Scope Z_scope.

Definition g_slice (t : option Z * option Z * option Z) : d_slice := let '(a, b, c) := t in DS a b c.

(* _range_to_slice, statement by statement, with the translated tests and results *)
Definition g_range_to_slice (l : list Z) : option d_slice :=
  match l with
  | [] => Some (g_slice c04_r2s_empty)                                   (* if not len(index): return slice(...) *)
  | x0 :: _ =>
      if existsb c04_r2s_bad_element l then None else                     (* if any(... for i in index): raise *)
      let ds := d_diff l in                                               (* increments_left = set(np.diff(index)) *)
      let step := match ds with [] => c04_r2s_default_step | d :: _ => d end in     (* pop() if ... else default *)
      if c04_r2s_reject step (negb (forallb (Z.eqb step) ds)) then None else        (* if step == 0 or left: raise *)
      let stop := c04_r2s_stop (last l 0) step in                         (* stop = index[-1] + step *)
      Some (g_slice (c04_r2s_result x0 stop step))                        (* return slice(start, stop ..., step) *)
  end.

(* _dask_oindex: the loop with the translated axis step *)
Fixpoint g_oindex_seq (a : d_arr) (ixs : list d_aidx) (axis : Z) : option d_arr :=
  match ixs with
  | [] => Some a
  | ix :: r =>
      match d_take a ix (Z.to_nat axis) with
      | None => None
      | Some a' => g_oindex_seq a' r (c04_oindex_axis_step (d_is_int ix) axis)
      end
  end.

(* the cull decision of dask_getitem along the stages of a contiguous request (Model/DaskJoint.v: j_culled_steps), with
   the translated test `np.prod(out.numblocks) < 0.5 * np.prod(x.numblocks)` *)
Fixpoint g_culled_steps (fuel : nat) (st : list (Z * list (Z * bool))) : bool :=
  match fuel with
  | O => false
  | S f =>
      let live := filter (fun a : Z * list (Z * bool) => match snd a with [] => false | _ => true end) st in
      match live with
      | [] => false
      | _ =>
          let before := fold_right Z.mul 1 (map fst live) in
          let next := flat_map (fun a : Z * list (Z * bool) => match snd a with
                                         | (c, dropped) :: r => if (dropped : bool) then [] else [(c, r)]
                                         | [] => [] end) live in
          let after := fold_right Z.mul 1 (map fst next) in
          c04_cull_test after before || g_culled_steps f next
      end
  end.

(* ---------- the remaining accessors of DaskLazyIndexer ---------- *)
(* __len__ : return self.shape[0]    (IndexError on a 0-d data set; None = it raises) *)
Definition d_len (i : d_ind) : option Z :=
  match d_adv i with Some (n :: _, _) => Some n | _ => None end.
(* __iter__ : for index in range(len(self)): yield self[index] *)
Definition d_iter (i : d_ind) : option (list (option d_arr)) :=
  match d_len i with
  | Some n => Some (map (fun k => d_index i [DInt (Z.of_nat k)]) (seq 0 (Z.to_nat n)))
  | None => None
  end.
