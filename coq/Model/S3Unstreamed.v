(* C09: requests that are NOT streamed and whose answers carry a body (the bucket listing of the 404 rule; any PUT / marker
   answer with content), at full strength - and several store OBJECTS in one history.

   (1) The body of an answer to a request without stream=True is downloaded INSIDE session.request.  A fault in it leaves
   session.request as an exception, so katdal's loop retries it with ITS Retry object (`retries` of the top of the loop
   iteration) - what urllib3 counted inside the adapter during that attempt (statuses of the forcelist, faults before the
   header) is forgotten.  `spec_unstreamed` says this by COUNTING, with no Retry object, no exception and no adapter in
   sight: the faults since the last answer that lost part of its body (`seen`) are counted against the budget `b` that
   was left at that moment; an answer that loses part of its body costs ONE read retry (and one of the total) of `b` and
   starts a new count.

   (2) `stores`: a history of get_chunk calls spread over SEVERAL S3ChunkStore objects (each with a configuration of its
   own).  The state is one verified-bucket cache PER OBJECT; a call reads and writes the cache of its own object only. *)
From Coq Require Import ZArith List Bool String.
From KV Require Import Base.Sx Base.Str Gen.Generated Model.S3Retry Model.S3Session.
Import ListNotations.
Open Scope Z_scope.

(* an answer with status 200 of which only part of the body arrives *)
Definition body_lost (len : nat) (o : outcome) : bool :=
  match o with Trunc k | Reset k | Stall k => (k <? len)%nat | _ => false end.

(* one read retry taken from a budget *)
Definition charge_read (b : retry) : retry := mkRetry (dec (r_total b)) (r_connect b) (dec (r_read b)) (r_status b).
Definition can_charge (b : retry) : bool := within 1 (r_read b) && within 1 (r_total b).

Fixpoint uspec (fl : list Z) (len : nat) (b : retry) (seen fs : list outcome) : result * nat :=
  match fs with
  | [] => (Ok len, 1%nat)
  | o :: rest =>
      if body_lost len o then
        if can_charge b
        then let '(r, n) := uspec fl len (charge_read b) [] rest in (r, S n)
        else (Err Glitch, 1%nat)
      else if transient fl len o then
        if fits fl len b (seen ++ [o])
        then let '(r, n) := uspec fl len b (seen ++ [o]) rest in (r, S n)
        else (Err Glitch, 1%nat)
      else (match o with Status c => Err (spec_status c) | _ => Ok len end, 1%nat)
  end.

Definition spec_unstreamed (cfg : config) (len : nat) (fs : list outcome) : result * nat :=
  uspec (c_forcelist cfg) len (c_retry cfg) [] fs.

(* the answers that lose part of their body among the first n of a script *)
Definition bodies_lost (len : nat) (n : nat) (fs : list outcome) : Z := count (body_lost len) (firstn n fs).

(* ---------- several store objects ---------- *)
Record sop := mkSop { s_store : nat; s_op : op }.

Definition upd (st : nat -> list nat) (k : nat) (v : list nat) : nat -> list nat :=
  fun j => if Nat.eqb j k then v else st j.

(* which cache object k reads and writes: its own (`self._verified_buckets = set()` in __init__), or - when the source
   keeps the set at class or module level - the one all objects of the process share (re-translated at every run) *)
Definition cache_slot (k : nat) : nat := if String.eqb s3_verified_scope "object" then k else O.

(* cf = the configuration each store object was constructed with; st = the verified-bucket cache of each slot *)
Fixpoint stores (cf : nat -> config) (st : nat -> list nat) (ops : list sop) : list chunk_run * (nat -> list nat) :=
  match ops with
  | [] => ([], st)
  | o :: t =>
      let '(g, vs') := session_op (cf (s_store o)) (st (cache_slot (s_store o))) (s_op o) in
      let '(gs, st') := stores cf (upd st (cache_slot (s_store o)) vs') t in (g :: gs, st')
  end.

Definition fresh : nat -> list nat := fun _ => [].

(* the calls made on store object k, in order *)
Definition on_store (k : nat) (ops : list sop) : list op :=
  map s_op (filter (fun o => Nat.eqb (s_store o) k) ops).
(* the results of a run that belong to store object k *)
Fixpoint runs_of (k : nat) (ops : list sop) (gs : list chunk_run) : list chunk_run :=
  match ops, gs with
  | o :: t, g :: gt => if Nat.eqb (s_store o) k then g :: runs_of k t gt else runs_of k t gt
  | _, _ => []
  end.

(* ---------- wire ---------- *)
(* (cfg len fs) -> ((model result, requests) (counting automaton result, requests) (counting spec result, requests)) *)
Definition wire_96 (x : sx) : sx :=
  match x with
  | L [cfg; I len; fs] =>
      let c := to_config cfg in
      let n := Z.to_nat len in
      let f := to_outcomes fs in
      let '(r1, n1) := request c PListing n [] f in
      let '(r2, n2) := spec_unstreamed c n f in
      let '(r3, n3) := spec_request c n f in
      L [L [of_result r1; of_nat n1]; L [of_result r2; of_nat n2]; L [of_result r3; of_nat n3]]
  | _ => sx_err
  end.

(* ((cfg of store 0, cfg of store 1, ...) ((store op) ...)) -> one entry per call, as wire_92; the spec half is the
   single-store spec on the calls of the SAME store object that came before *)
Fixpoint stores_wire (cf : nat -> config) (st : nat -> list nat) (hist : list sop) (ops : list sop) : list sx :=
  match ops with
  | [] => []
  | o :: t =>
      let k := s_store o in
      let '(g, vs') := session_op (cf k) (st (cache_slot k)) (s_op o) in
      L [of_result (g_result g); of_nat (g_obj_requests g); of_nat (g_bucket_requests g); of_nats vs';
         of_result (spec_op (cf k) (on_store k hist) (s_op o));
         of_bool (shown (cf k) (on_store k hist) (o_id (s_op o)))]
      :: stores_wire cf (upd st (cache_slot k) vs') (hist ++ [o]) t
  end.

Definition wire_97 (x : sx) : sx :=
  match x with
  | L [cfgs; ops] =>
      let cl := map to_config (to_list cfgs) in
      let cf := fun k => nth k cl (mkConfig (mkRetry None None None None) []) in
      L (stores_wire cf fresh []
           (map (fun y => match y with L [I k; o] => mkSop (Z.to_nat k) (to_op o) | _ => mkSop O (to_op y) end)
                (to_list ops)))
  | _ => sx_err
  end.
