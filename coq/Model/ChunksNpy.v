(* C07, fifth model file: the BYTES of the .npy object of a chunk, i.e. what NpyFileChunkStore writes into
   "<path>/<array>/<idx>.npy" and S3ChunkStore sends as the object body, and how the two readers get the chunk back.

     writer   npy_header_and_body(chunk): chunk = np.asarray(chunk, order='C'); header = magic ++ version (1, 0) ++
              '<H' header length ++ "{'descr': ..., 'fortran_order': ..., 'shape': ..., }" ++ padding ++ "\n"
              (numpy's write_array_header_1_0 / _wrap_header: the padding makes the length of everything before the
              body a multiple of ARRAY_ALIGN = 64); body = chunk.reshape(-1), the items of the LOGICAL elements in C order
     readers  np.load(filename, allow_pickle=False)            (NpyFileChunkStore.get_chunk)
              katdal.chunkstore_s3.read_array                  (S3ChunkStore.get_chunk: versions cs_npy_read_versions)
              both: count = prod(shape) items of itemsize bytes, C or Fortran order as the header says.

   The container (magic, version, header length, header text, body length) is C08's Model/Npy.v, used here unchanged;
   the memory layout / element order is Model/ChunksMulti.v (npy_encode, npy_decode).  This file joins the two: an
   element is the list of its itemsize bytes, a chunk is (dtype descriptor, shape, elements), a file is a list of bytes.
   The format version katdal writes and the versions its own reader accepts are re-translated from the source at
   every run (Gen/Generated.v: cs_npy_write_major, cs_npy_read_versions, item_npy_file).  Definitions only. *)
From Coq Require Import ZArith List Bool.
From KV Require Import Base.Sx Gen.Generated Model.Chunks Model.ChunksMulti Model.Npy.
Import ListNotations.
Open Scope Z_scope.

Definition item := list Z.                       (* the bytes of one element (itemsize of them) *)

(* the dtype descriptors this model speaks about: byte order character + kind + decimal item size with the kind one of
   b i u f c S V (Model/Npy.v reads the item size off the digits, which is right for these kinds; 'U' has 4 bytes per
   character, 'M' / 'm' carry a unit, structured dtypes are lists: reached by the correspondence only) *)
Definition kind_modelled (descr : bytes) : bool :=
  match descr with
  | _ :: k :: _ => existsb (Z.eqb k) [98; 105; 117; 102; 99; 83; 86]
  | _ => false
  end.

Definition npy_align : Z := 64.                  (* numpy.lib.format.ARRAY_ALIGN *)

(* numpy _wrap_header: hlen = len(text) + 1; padlen = ARRAY_ALIGN - ((MAGIC_LEN + calcsize(fmt) + hlen) % ARRAY_ALIGN);
   print_hdr_c 0 m is the text plus the final newline, i.e. hlen bytes *)
Definition npy_pad (nb : nat) (m : hdr) : nat :=
  Z.to_nat (npy_align - ((8 + Z.of_nat nb + Z.of_nat (List.length (print_hdr_c 0 m))) mod npy_align)).

Definition shape_nat (shape : list Z) : list nat := map Z.to_nat shape.

Definition obj_hdr (descr : bytes) (o : npy_obj item) : hdr :=
  match o with NpyObj fo shape _ => mkhdr descr fo (shape_nat shape) end.
Definition obj_body (o : npy_obj item) : bytes := match o with NpyObj _ _ body => concat body end.

(* the file of an object as a writer of format version (major, 0) with a header length field of nb bytes and `pad`
   spaces of padding lays it out (any .npy writer: np.save, older numpy with 16-byte alignment, format 2.0) *)
Definition obj_bytes_v (major : Z) (nb pad : nat) (descr : bytes) (o : npy_obj item) : bytes :=
  encode (print_hdr_c pad) major nb (obj_hdr descr o) (obj_body o).

(* katdal's writer: version cs_npy_write_major with its header length field and the aligned padding *)
Definition katdal_nb : nat := match hlen_bytes cs_npy_write_major with Some nb => nb | None => O end.
Definition obj_bytes (descr : bytes) (o : npy_obj item) : bytes :=
  obj_bytes_v cs_npy_write_major katdal_nb (npy_pad katdal_nb (obj_hdr descr o)) descr o.

(* put_chunk of a chunk with the given dtype descriptor, logical elements, shape and memory layout *)
Definition npy_file (descr : bytes) (elem : list Z -> item) (shape : list Z) (lay : layout) : bytes :=
  obj_bytes descr (npy_encode elem shape lay).

(* ---- readers ---- *)
Fixpoint split_items (isz n : nat) (bs : bytes) : list item :=
  match n with
  | O => []
  | S k => firstn isz bs :: split_items isz k (skipn isz bs)
  end.

Definition obj_of (r : res (hdr * bytes)) : res (bytes * npy_obj item) :=
  match r with
  | Err e => Err e
  | Ok (m, body) =>
      match itemsize (h_descr m) with
      | None => Err EValue
      | Some isz => Ok (h_descr m, NpyObj (h_fortran m) (map Z.of_nat (h_shape m))
                                           (split_items isz (count (h_shape m)) body))
      end
  end.

(* np.load(filename, allow_pickle=False) *)
Definition npy_read_file (bs : bytes) : res (bytes * npy_obj item) := obj_of (np_load parse_hdr_c bs).
(* katdal.chunkstore_s3.read_array(_DetectTruncation(fp)) *)
Definition s3_read_file (bs : bytes) : res (bytes * npy_obj item) :=
  obj_of (read_array parse_hdr_c EIncomplete cs_npy_read_versions bs).

(* get_chunk(array_name, slices, dtype) on the file found under the chunk name: BadChunk unless dtype and shape are the
   expected ones; 0 = chunk (its elements by local index), 1 = the reader failed, 2 = BadChunk *)
Definition descr_eqb (a b : bytes) : bool := bytes_eqb a b.
Definition get_chunk_file (s3 : bool) (want_descr : bytes) (want_shape : list Z) (bs : bytes)
  : Z * option (npy_obj item) :=
  match (if s3 then s3_read_file bs else npy_read_file bs) with
  | Err _ => (1, None)
  | Ok (d, o) =>
      match o with
      | NpyObj _ shape _ =>
          if descr_eqb d want_descr && (if zs_eq_dec shape want_shape then true else false) then (0, Some o) else (2, None)
      end
  end.

(* ---- wire 75 ----
   (1 descr fortran shape (item ...))            -> file bytes as katdal writes the object
   (2 major nb pad descr fortran shape (item..)) -> file bytes of another writer
   (3 bytes)                                     -> (np.load result, read_array result), each (0 descr fortran shape (item ...)) | (err)
   (4 nb descr fortran shape)                    -> (padding, total header length = offset of the body) *)
Definition to_items (x : sx) : list item := match x with L l => map to_Zs l | _ => [] end.
Definition of_items (l : list item) : sx := L (map of_Zs l).
Definition of_robj (r : res (bytes * npy_obj item)) : sx :=
  match r with
  | Ok (d, NpyObj fo shape body) => L [I 0; of_Zs d; of_bool fo; of_Zs shape; of_items body]
  | Err e => L [I (of_err e)]
  end.
Definition wire_75 (x : sx) : sx :=
  match x with
  | L [I 1; d; fo; sh; its] => of_Zs (obj_bytes (to_Zs d) (NpyObj (to_bool fo) (to_Zs sh) (to_items its)))
  | L [I 2; I major; nb; pad; d; fo; sh; its] =>
      of_Zs (obj_bytes_v major (to_nat nb) (to_nat pad) (to_Zs d) (NpyObj (to_bool fo) (to_Zs sh) (to_items its)))
  | L [I 3; b] => L [of_robj (npy_read_file (to_Zs b)); of_robj (s3_read_file (to_Zs b))]
  | L [I 4; nb; d; fo; sh] =>
      let m := mkhdr (to_Zs d) (to_bool fo) (shape_nat (to_Zs sh)) in
      let p := npy_pad (to_nat nb) m in
      L [I (Z.of_nat p); I (8 + Z.of_nat (to_nat nb) + Z.of_nat (List.length (print_hdr_c p m)))]
  | _ => sx_err
  end.
