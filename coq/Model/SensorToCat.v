(* C10: categorical sensors are mapped onto dumps by the documented rule.
   Model of katdal/categorical.py: sensor_to_categorical (667-770), the generator
   _single_event_per_dump (606-664), CategoricalData.__init__ / unique_in_order (151-201, 266-269) and
   CategoricalData.__getitem__(slice(None)) / _lookup (276-335).  Definitions only.

   Conventions: times are integers (the harness uses half-dump units so that "before / inside / on the edge /
   after" are exact), sensor values are integers (ids of the letters / arrays used by the harness; only
   equality of values matters to the code), the transform is a finite map on values, dump indices are Z
   (the code produces -1 for events before the extra prior dump), event positions are nat. *)
From Coq Require Import ZArith List Bool.
From KV Require Import Base.Sx.
Import ListNotations.
Open Scope Z_scope.

Inductive res (A : Type) := Ok (a : A) | Err.
Arguments Ok {A} a.
Arguments Err {A}.

(* ---------- numpy pieces the code relies on (modelled for SORTED arrays) ---------- *)
(* a.searchsorted(v) (side='left'): number of leading elements < v *)
Fixpoint ss_left (a : list Z) (v : Z) : nat :=
  match a with [] => O | x :: t => if x <? v then S (ss_left t v) else O end.
(* a.searchsorted(v, side='right'): number of leading elements <= v *)
Fixpoint ss_right (a : list Z) (v : Z) : nat :=
  match a with [] => O | x :: t => if x <=? v then S (ss_right t v) else O end.
(* a[i] = v (in place) *)
Fixpoint upd {A : Type} (l : list A) (i : nat) (v : A) : list A :=
  match l, i with
  | [], _ => []
  | _ :: t, O => v :: t
  | h :: t, S j => h :: upd t j v
  end.
(* a[lo:hi] for 0 <= lo, hi *)
Definition slice {A : Type} (lo hi : nat) (l : list A) : list A := firstn (hi - lo) (skipn lo l).
Definition memZ (v : Z) (l : list Z) : bool := existsb (Z.eqb v) l.
Definition last_opt {A : Type} (l : list A) : option A :=
  match l with [] => None | x :: t => Some (last t x) end.

(* transform: None, or a finite map (identity outside its keys) *)
Definition apply_map (m : list (Z * Z)) (v : Z) : Z :=
  match find (fun p => fst p =? v) m with Some p => snd p | None => v end.
Definition app_tr (tr : option (list (Z * Z))) (v : Z) : Z :=
  match tr with Some m => apply_map m v | None => v end.

(* ---------- _single_event_per_dump (606-664) ----------
   State of the generator: previous_winning_event, previous_dump, the (mutated) events array, and the
   event indices yielded so far.  `for current_event, current_dump in enumerate(events)` reads the live
   array, but the only element ever mutated is events[current_event - 1], which the iteration has
   already passed, so the loop is a fold over the ORIGINAL list with a running index. *)
Record gst := mk_gst { pw : nat; pd : Z; evm : list Z; out : list nat }.

Definition gstep (greedy : list bool) (s : gst) (ce : nat) (cd : Z) : gst :=
  let s1 :=
    if pd s <? cd then                                     (* if current_dump > previous_dump: *)
      let es := (ce - 1)%nat in                            (* event_at_dump_start *)
      let pw1 := if nth (pw s) greedy false then pw s else es in
      let wd := nth pw1 (evm s) 0 in                       (* winning_dump = events[previous_winning_event] *)
      let out1 := if (pd s <=? wd) && (wd <? cd) then out s ++ [pw1] else out s in
      if Nat.eqb es pw1 then mk_gst pw1 cd (evm s) out1
      else
        let e' := nth es (evm s) 0 + 1 in                  (* events[event_at_dump_start] += 1 *)
        let evm2 := upd (evm s) es e' in
        let out2 := if e' <? cd then out1 ++ [es] else out1 in
        mk_gst es cd evm2 out2
    else s in
  if (ce <? length greedy)%nat && nth ce greedy false       (* latest greedy event becomes the winner *)
  then mk_gst ce (pd s1) (evm s1) (out s1) else s1.

Fixpoint gen_loop (greedy : list bool) (s : gst) (ce : nat) (rest : list Z) : gst :=
  match rest with
  | [] => s
  | cd :: t => gen_loop greedy (gstep greedy s ce cd) (S ce) t
  end.

(* events includes the one-past-last-dump terminator; result: (cleaned_up, mutated events) *)
Definition single_event_per_dump (events : list Z) (greedy : list bool) : list nat * list Z :=
  let s := gen_loop greedy (mk_gst O 0 events []) O events in
  (out s, evm s).

(* ---------- repeat removal (762-768) ---------- *)
(* changes_value = [n for n in range(len(values)) if n == 0 or values[n] != values[n-1]] *)
Fixpoint changes_from (prev : Z) (l : list (Z * Z)) : list (Z * Z) :=
  match l with
  | [] => []
  | (v, d) :: t => if v =? prev then changes_from v t else (v, d) :: changes_from v t
  end.
Definition remove_repeats (l : list (Z * Z)) : list (Z * Z) :=
  match l with [] => [] | (v, d) :: t => (v, d) :: changes_from v t end.

(* ---------- sensor_to_categorical (667-770) ----------
   Result: the (sensor_values, events) pair handed to CategoricalData, events ending with num_dumps.
   Err models the IndexError raised when there is no dump (dump_endtimes[0]) or, with no initial value,
   no usable event (events[0]). *)
(* lines 714-752: everything before the generator.  Result: (sensor_values, events) with events[0] = 0,
   or None for the IndexError cases. *)
Definition s2c_prep (ts vals ends : list Z) (P : Z) (tr : option (list (Z * Z))) (init : option Z)
  : option (list Z * list Z) :=
  match ends with
  | [] => None
  | e0 :: _ =>
    let num_dumps := Z.of_nat (length ends) in
    let ends' := (e0 - P) :: ends in                                        (* extra prior dump *)
    let events := map (fun t => Z.of_nat (ss_left ends' t) - 1) ts in
    let fp := ss_right events (-1) in                                       (* first_proper_event *)
    let '(fp, events) := if (0 <? fp)%nat then ((fp - 1)%nat, upd events (fp - 1) 0) else (fp, events) in
    let opl := ss_left events num_dumps in                                  (* one_past_last_event *)
    let vals := slice fp opl vals in
    let events := slice fp opl events in
    let vals := map (app_tr tr) vals in
    let '(vals, events) :=
      match init with
      | Some i => match events with
                  | [] => (i :: vals, 0 :: events)          (* len(events) == 0 (after the F7 repair) *)
                  | e :: _ => if e =? 0 then (vals, events) else (i :: vals, 0 :: events)
                  end
      | None => (vals, events)
      end in
    match events with
    | [] => None                                                            (* events[0] = 0 : IndexError *)
    | _ :: etl => Some (vals, 0 :: etl)
    end
  end.

(* lines 753-770: greedy flags, terminator, generator, indexing by cleaned_up, repeat removal *)
Definition s2c_tail (vals events : list Z) (num_dumps : Z) (greedy : list Z) (allow_repeats : bool)
  : list Z * list Z :=
  let gflags := map (fun v => memZ v greedy) vals in
  let events := events ++ [num_dumps] in
  let '(cleaned, events) := single_event_per_dump events gflags in
  let pairs := map (fun i => (nth i vals 0, nth i events 0)) cleaned in
  let pairs := if allow_repeats then pairs else remove_repeats pairs in
  (map fst pairs, map snd pairs ++ [num_dumps]).

Definition s2c (ts vals ends : list Z) (P : Z) (tr : option (list (Z * Z))) (init : option Z)
               (greedy : list Z) (allow_repeats : bool) : res (list Z * list Z) :=
  match s2c_prep ts vals ends P tr init with
  | None => Err
  | Some (v, e) => Ok (s2c_tail v e (Z.of_nat (length ends)) greedy allow_repeats)
  end.

(* ---------- CategoricalData(sensor_values, events) ---------- *)
Fixpoint index_of (v : Z) (l : list Z) : option nat :=
  match l with
  | [] => None
  | x :: t => if x =? v then Some O else option_map S (index_of v t)
  end.
Definition unique_in_order (l : list Z) : list Z :=
  fold_left (fun acc v => if memZ v acc then acc else acc ++ [v]) l [].
Record cat := mk_cat { unique_values : list Z; indices : list nat; cevents : list Z }.
Definition cat_of (vals events : list Z) : cat :=
  let u := unique_in_order vals in
  mk_cat u (map (fun v => match index_of v u with Some i => i | None => O end) vals) events.

(* data[:] : one value per dump 0 .. events[-1]-1 via _lookup; Err = IndexError *)
Definition cat_lookup (c : cat) (k : Z) : res Z :=
  let p := Z.of_nat (ss_right (cevents c) k) - 1 in
  if (p <? 0) || (Z.of_nat (length (indices c)) <=? p) then Err
  else Ok (nth (nth (Z.to_nat p) (indices c) O) (unique_values c) 0).
Fixpoint res_all {A : Type} (l : list (res A)) : res (list A) :=
  match l with
  | [] => Ok []
  | Err :: _ => Err
  | Ok a :: t => match res_all t with Ok r => Ok (a :: r) | Err => Err end
  end.
Definition cat_all (c : cat) : res (list Z) :=
  let n := Z.to_nat (last (cevents c) 0) in
  res_all (map (fun k => cat_lookup c (Z.of_nat k)) (seq 0 n)).

Definition sensor_to_categorical ts vals ends P tr init greedy allow_repeats : res cat :=
  match s2c ts vals ends P tr init greedy allow_repeats with
  | Ok (v, e) => Ok (cat_of v e)
  | Err => Err
  end.
Definition per_dump ts vals ends P tr init greedy allow_repeats : res (list Z) :=
  match sensor_to_categorical ts vals ends P tr init greedy allow_repeats with
  | Ok c => cat_all c
  | Err => Err
  end.

(* ================= SPEC: the documented rule, stated over times, no algorithm ================= *)
(* values of the (time, transformed value) pairs whose time satisfies f, in time order *)
Definition sel (f : Z -> bool) (tv : list (Z * Z)) : list Z := map snd (filter (fun p => f (fst p)) tv).
(* the value of a dump given the values in effect during it: latest greedy one, else the last one *)
Definition pick (isg : Z -> bool) (S : list Z) : Z :=
  match last_opt (filter isg S) with Some g => g | None => last S 0 end.
(* dump k covers (lo, hi]; the value carried into it is the value of the last event at or before lo,
   or else the start value *)
Definition dump_value (isg : Z -> bool) (tv : list (Z * Z)) (start : Z) (lohi : Z * Z) : Z :=
  let '(lo, hi) := lohi in
  pick isg (last (sel (fun t => t <=? lo) tv) start :: sel (fun t => (lo <? t) && (t <=? hi)) tv).
(* start value (used only when no event precedes the first dump): initial value, else first event at or
   before the end of the last dump (events after the last dump are ignored); None = no value is defined *)
Definition start_value (tv : list (Z * Z)) (init : option Z) (lastend : Z) : option Z :=
  match init with
  | Some i => Some i
  | None => hd_error (sel (fun t => t <=? lastend) tv)
  end.
Definition spec_per_dump (ts vals ends : list Z) (P : Z) (tr : option (list (Z * Z))) (init : option Z)
                         (greedy : list Z) : option (list Z) :=
  match ends with
  | [] => None
  | e0 :: _ =>
    let tv := combine ts (map (app_tr tr) vals) in
    match start_value tv init (last ends e0) with
    | None => None
    | Some st => Some (map (dump_value (fun v => memZ v greedy) tv st) (combine ((e0 - P) :: ends) ends))
    end
  end.

(* what the unrepaired code does about the initial value (finding F14): it is dropped whenever the first
   usable event already lies inside dump 0 *)
Definition init_as_coded (ts ends : list Z) (P : Z) (init : option Z) : option Z :=
  match ends with
  | [] => init
  | e0 :: _ =>
    if existsb (fun t => t <=? e0 - P) ts then init
    else if existsb (fun t => (e0 - P <? t) && (t <=? e0)) ts then None else init
  end.

(* ---------- wire helpers (the wire functions live in Model/SensorToCatSrc.v) ---------- *)
Definition of_res_list (r : res (list Z)) : sx :=
  match r with Ok l => L [I 1; of_Zs l] | Err => L [I 0] end.
Definition to_pairs (x : sx) : list (Z * Z) :=
  map (fun p => match p with L [I a; I b] => (a, b) | _ => (0, 0) end) (to_list x).
Definition to_tr (x : sx) : option (list (Z * Z)) :=
  match x with L [m] => Some (to_pairs m) | _ => None end.


(* ---------- the generator with its look-ups cached (proof device; same algorithm, no index arithmetic) ----------
   State: current dump / value of previous_winning_event, whether it is the latest event seen, value of the latest
   event (its dump is previous_dump), previous_dump, and the yielded (value, final dump) pairs. *)
Record ast := mk_ast { ad : Z; av : Z; alast : bool; lv : Z; apd : Z; aout : list (Z * Z) }.

Definition abound (isg : Z -> bool) (a : ast) (cd : Z) : ast :=
  let '(wd, wv, same) := if isg (av a) then (ad a, av a, alast a) else (apd a, lv a, true) in
  let out1 := if (apd a <=? wd) && (wd <? cd) then aout a ++ [(wv, wd)] else aout a in
  if same then mk_ast wd wv true (lv a) cd out1
  else let e' := apd a + 1 in
       let out2 := if e' <? cd then out1 ++ [(lv a, e')] else out1 in
       mk_ast e' (lv a) true (lv a) cd out2.

Definition astep (isg : Z -> bool) (a : ast) (cd v : Z) (real : bool) : ast :=
  let a1 := if apd a <? cd then abound isg a cd else a in
  if real && isg v then mk_ast cd v true v (apd a1) (aout a1)
  else mk_ast (ad a1) (av a1) false v (apd a1) (aout a1).

Definition arun (isg : Z -> bool) (a : ast) (l : list (Z * Z)) : ast :=
  fold_left (fun a e => astep isg a (fst e) (snd e) true) l a.

(* events (dump, value) after the first one (which is at dump 0 with value v0), then the terminator N *)
Definition afinal (isg : Z -> bool) (v0 : Z) (l : list (Z * Z)) (N : Z) : list (Z * Z) :=
  aout (astep isg (arun isg (mk_ast 0 v0 true v0 0 []) l) N 0 false).

(* guard of C10_per_dump_partial: the initial value is used by the code as the rule says, i.e. NOT the F14 situation
   (an initial value is given, no event at or before the start of dump 0, and an event inside dump 0) *)
Definition opt_eqb (a b : option Z) : bool :=
  match a, b with Some x, Some y => x =? y | None, None => true | _, _ => false end.
Definition c10_guard (ts ends : list Z) (P : Z) (init : option Z) : bool :=
  opt_eqb (init_as_coded ts ends P init) init.

(* ---------- the exact boundary of finding F14 ----------
   situation: an initial value is given, no event at or before the start of dump 0, an event inside dump 0
   (then the code drops the initial value); it matters only if the initial value would have won dump 0 *)
Definition no_prior (ts : list Z) (lo : Z) : bool := negb (existsb (fun t => t <=? lo) ts).
Definition in_first (ts : list Z) (lo hi : Z) : bool := existsb (fun t => (lo <? t) && (t <=? hi)) ts.
Definition f14_situation (ts ends : list Z) (P : Z) (init : option Z) (greedy : list Z) : bool :=
  match init, ends with
  | Some i, e0 :: _ => memZ i greedy && no_prior ts (e0 - P) && in_first ts (e0 - P) e0
  | _, _ => false
  end.
(* values of the events inside dump 0 *)
Definition first_dump_values (ts vals ends : list Z) (P : Z) (tr : option (list (Z * Z))) : list Z :=
  match ends with
  | e0 :: _ => sel (fun t => (e0 - P <? t) && (t <=? e0)) (combine ts (map (app_tr tr) vals))
  | [] => []
  end.
Definition f14_differs (ts vals ends : list Z) (P : Z) (tr : option (list (Z * Z))) (init : option Z)
                       (greedy : list Z) : bool :=
  match init, ends with
  | Some i, e0 :: _ =>
      let X := first_dump_values ts vals ends P tr in
      let isg := fun v => memZ v greedy in
      no_prior ts (e0 - P) && in_first ts (e0 - P) e0 && negb (pick isg (i :: X) =? pick isg X)
  | _, _ => false
  end.
