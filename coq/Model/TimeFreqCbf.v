(* C17 (extension): where the CBF dump period comes from.
   MODEL: visdatav4._cbf_attrs as the interpreted program gen_cbf_prog (re-translated from the source: every lookup
   `target = attrs[base + key]` / `attrs[key]`, `[0]` of it where the source takes the first element), and the
   try / except of VisibilityDataV4.__init__ that turns gen_cbf_lite_exceptions into "no CBF attributes" (a lite RDB:
   no correction possible).  Python semantics of the lookups: missing key -> KeyError, [0] of an empty list / string ->
   IndexError, [0] of a string -> its first character, str + non-str -> TypeError (propagates: out of domain).
   SPEC (hand-written): the documented chain  src_streams[0] -> <corr>_int_time, <corr>_n_accs, <corr>_src_streams[0] ->
   <feng>_instrument_dev_name -> <instrument>_scale_factor_timestamp. *)
From Coq Require Import ZArith QArith List Bool String.
From KV Require Import Base.Sx Base.Str Gen.Generated Model.TimeFreq.
Import ListNotations.
Open Scope string_scope.

Inductive aval := AStr (s : string) | AList (l : list string) | ANum (x : Q).
Definition attrs := list (string * aval).
Fixpoint aget (k : string) (a : attrs) : option aval :=
  match a with [] => None | (k', v) :: r => if String.eqb k k' then Some v else aget k r end.

(* error codes: 1 KeyError | 2 IndexError | 3 TypeError *)
Definition cbf_key (env : attrs) (base : option string) (key : string) : option string :=
  match base with
  | None => Some key
  | Some b => match aget b env with Some (AStr s) => Some (s ++ key) | _ => None end
  end.
Definition first_of (v : aval) : aval + Z :=
  match v with
  | AList (x :: _) => inl (AStr x)
  | AList [] => inr 2%Z
  | AStr (String c _) => inl (AStr (String c EmptyString))
  | AStr EmptyString => inr 2%Z
  | ANum _ => inr 3%Z
  end.
Definition cbf_step_run (a : attrs) (st : attrs + Z) (s : cbf_step) : attrs + Z :=
  match st with
  | inr e => inr e
  | inl env =>
      let '(CbfStep t b k f) := s in
      match cbf_key env b k with
      | None => inr 3%Z
      | Some key =>
          match aget key a with
          | None => inr 1%Z
          | Some v => if f then match first_of v with inl x => inl ((t, x) :: env) | inr e => inr e end
                      else inl ((t, v) :: env)
          end
      end
  end.
Definition cbf_run (a : attrs) : attrs + Z := fold_left (cbf_step_run a) gen_cbf_prog (inl []).
Definition exc_name (e : Z) : string :=
  match e with 1%Z => "KeyError" | 2%Z => "IndexError" | _ => "TypeError" end.

(* self.cbf_dump_period after the try / except: CPeriod p | CLite (None) | CRaises (the exception propagates) *)
Inductive cbf_result := CPeriod (p : Q) | CLite | CRaises.
Definition cbf_period (a : attrs) : cbf_result :=
  match cbf_run a with
  | inl env => match aget (hd "" gen_cbf_result) env with Some (ANum p) => CPeriod p | _ => CRaises end
  | inr e => if mem_string (exc_name e) gen_cbf_lite_exceptions then CLite else CRaises
  end.
Definition t_cbf_of (a : attrs) : option Q := match cbf_period a with CPeriod p => Some p | _ => None end.

(* SPEC: the documented chain over well-typed attributes; anything missing (or an empty stream list) = lite *)
Definition spec_cbf (a : attrs) : cbf_result :=
  match aget "src_streams" a with
  | None | Some (AList []) => CLite
  | Some (AList (cs :: _)) =>
      match aget (cs ++ "_int_time") a with
      | None => CLite
      | Some (ANum p) =>
          match aget (cs ++ "_n_accs") a with
          | None => CLite
          | Some _ =>
              match aget (cs ++ "_src_streams") a with
              | None | Some (AList []) => CLite
              | Some (AList (fs :: _)) =>
                  match aget (fs ++ "_instrument_dev_name") a with
                  | None => CLite
                  | Some (AStr inst) =>
                      match aget (inst ++ "_scale_factor_timestamp") a with
                      | None => CLite
                      | Some _ => CPeriod p
                      end
                  | Some _ => CRaises
                  end
              | Some _ => CRaises
              end
          end
      | Some _ => CRaises
      end
  | Some _ => CRaises
  end.

(* the timing record of a data set whose CBF period is read from the attributes *)
Definition timing_with_attrs (tm : timing) (a : attrs) : timing :=
  mkTiming (t_sync tm) (t_first tm) (t_int tm) (t_off tm) (t_cbf_of a) (t_cmc2 tm) (t_cbf4k tm).

(* ---- wire ---- *)
Definition to_aval (x : sx) : aval :=
  match x with
  | L [I 0; s] => AStr (to_string s)
  | L [I 1; l] => AList (to_strings l)
  | L [I 2; v] => ANum (to_Q v)
  | _ => AStr ""
  end.
Definition to_attrs (x : sx) : attrs :=
  map (fun kv => match kv with L [k; v] => (to_string k, to_aval v) | _ => ("", AStr "") end) (to_list x).
Definition of_cbf (r : cbf_result) : sx :=
  match r with CPeriod p => L [I 0; of_Q p] | CLite => L [I 1] | CRaises => L [I 2] end.

(* (attrs) -> (model result, spec result) *)
Definition wire_174 (x : sx) : sx :=
  match x with
  | L [a] => L [of_cbf (cbf_period (to_attrs a)); of_cbf (spec_cbf (to_attrs a))]
  | _ => sx_err
  end.
