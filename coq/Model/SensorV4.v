(* C12: the v4-only virtual sensors Correlator/Inputs/{inp}/applied_delay and applied_phase
   (katdal/visdatav4.py:_calc_delay).  Definitions only.

   The raw CBF sensor `{stream}_{inp}_delay` carries, per update, the five numbers (ADC sample count of the update,
   delay, delay rate, phase, phase rate); its own sample times are ignored.  The code builds TWO ordinary sensors
   (SimpleSensorGetter, no status) from them and lets the cache extract the requested one through the usual path:
       times       = sync_time + adc_sample_counts / scale_factor_timestamp
       final_time  = max(times[-1], cache.timestamps[-1]) + 1
       next_times  = [times[1] - 1e-6, ..., times[-1] - 1e-6, final_time]
       next_delays = delays + delay_rates * (next_times - times)          (phases alike)
       samples     = (times[0], delays[0]), (next_times[0], next_delays[0]), (times[1], delays[1]), ...
   so that the interpolated sensor follows the F-engine's own linear model between two updates. *)
From Coq Require Import ZArith QArith List Bool String.
From KV Require Import Base.Sx Base.Str Gen.Generated Model.Interp Model.SensorCache.
Import ListNotations.
Local Open Scope Q_scope.

Record upd := mkU { u_c : Q; u_d : Q; u_dr : Q; u_p : Q; u_pr : Q }.
(* 1e-6 s and the + 1 s of final_time: regenerated from _calc_delay *)
Definition v4_eps : Q := 1 / inject_Z v4_delay_eps_inv.
Definition v4_pad : Q := inject_Z v4_delay_final_pad.

Definition u_time (S F : Q) (u : upd) : Q := S + u_c u / F.
Definition qmax (a b : Q) : Q := if Qle_bool a b then b else a.

(* max(times[-1], cache.timestamps[-1]) + 1; None when there is no update or no dump (the code raises) *)
Definition v4_final (S F : Q) (ups : list upd) (ts : list Q) : option Q :=
  match ups, ts with
  | u0 :: _, t0 :: _ => Some (qmax (u_time S F (List.last ups u0)) (List.last ts t0) + v4_pad)
  | _, _ => None
  end.

(* times / next_times interleaved, in the RAW order of the updates *)
Fixpoint v4_nodes (S F fin : Q) (val rate : upd -> Q) (ups : list upd) : list node :=
  match ups with
  | [] => []
  | u :: rest =>
      let t := u_time S F u in
      let nt := match rest with v :: _ => u_time S F v - v4_eps | [] => fin end in
      (t, val u) :: (nt, val u + rate u * (nt - t)) :: v4_nodes S F fin val rate rest
  end.

Definition v4_samples (nodes : list node) : list sample := map (fun n => mkS (fst n) (snd n) ""%string) nodes.

(* which = true: applied_delay, false: applied_phase.  The built sensor goes through the ORDINARY extraction *)
Definition v4_applied (which : bool) (S F : Q) (ups : list upd) (ts : list Q) : xres :=
  match v4_final S F ups ts with
  | None => XErr
  | Some fin =>
      let nodes := if which then v4_nodes S F fin u_d u_dr ups else v4_nodes S F fin u_p u_pr ups in
      extract_sensor (mkG DFloat false (v4_samples nodes)) ts p_empty
  end.

(* SPEC (documented): the value at time t is that of the LATEST update at or before t, advanced at its own rate;
   before the first update the first value is held *)
Definition spec_applied (S F : Q) (val rate : upd -> Q) (ups : list upd) (t : Q) : option Q :=
  match ups with
  | [] => None
  | u0 :: _ =>
      let past := filter (fun u => Qle_bool (u_time S F u) t) ups in
      match past with
      | [] => Some (val u0)
      | p0 :: _ => let u := List.last past p0 in Some (val u + rate u * (t - u_time S F u))
      end
  end.

(* updates in chronological order, more than 1e-6 s apart, the last one before fin *)
Fixpoint ups_ok (S F fin : Q) (ups : list upd) : Prop :=
  match ups with
  | [] => True
  | u :: rest => match rest with
                 | v :: _ => u_time S F u < u_time S F v - v4_eps
                 | [] => u_time S F u < fin
                 end /\ ups_ok S F fin rest
  end.

(* ------------------------------------------------------------------ wire *)
Definition to_upd (x : sx) : upd :=
  match x with
  | L [c; d; dr; p; pr] => mkU (to_Q c) (to_Q d) (to_Q dr) (to_Q p) (to_Q pr)
  | _ => mkU 0 0 0 0 0
  end.
Definition of_xres (r : xres) : sx :=
  match r with
  | XVals l => L [I 0%Z; L (map of_qn l)]
  | XCat _ => L [I 1%Z]
  | XErr => L [I 2%Z]
  end.
(* (which S F updates timestamps) -> (model result, spec values) *)
Definition wire_127 (x : sx) : sx :=
  match x with
  | L [w; s; f; ups; ts] =>
      let S := to_Q s in let F := to_Q f in
      let u := map to_upd (to_list ups) in let tq := map to_Q (to_list ts) in
      L [of_xres (v4_applied (to_bool w) S F u tq);
         L (map (fun t => of_qn (if to_bool w then spec_applied S F u_d u_dr u t else spec_applied S F u_p u_pr u t)) tq)]
  | _ => sx_err
  end.
