(* C20 (extension): several locks, taken in a fixed order -- nested DaskLazyIndexer objects (an indexer resolves its parent's
   `dataset`, i.e. takes the parent's lock, while it holds its own), the concatenated sensor cache and its parts.
   Plain (non re-entrant) locks named by nat = their rank; threads (the finite list ts) run programs of Acq l / Rel l;
   a thread that asks for a lock somebody holds does not move. *)
From Coq Require Import List Arith Bool ZArith.
From KV Require Import Base.Sx.
Import ListNotations.
Close Scope Z_scope.
Open Scope nat_scope.

Inductive lop := Acq (l : nat) | Rel (l : nat).
Record hcfg := mkH { h_held : nat -> list nat;       (* the locks thread t holds, most recent first *)
                     h_prog : nat -> list lop }.     (* what thread t still has to do *)

Definition is_held (ts : list nat) (c : hcfg) (l : nat) : bool :=
  existsb (fun t => existsb (Nat.eqb l) (h_held c t)) ts.
Definition hupd {A} (f : nat -> A) (t : nat) (x : A) : nat -> A := fun u => if Nat.eqb u t then x else f u.

Definition hstep (ts : list nat) (c : hcfg) (t : nat) : hcfg :=
  match h_prog c t with
  | [] => c
  | Acq l :: r => if is_held ts c l then c
                  else mkH (hupd (h_held c) t (l :: h_held c t)) (hupd (h_prog c) t r)
  | Rel l :: r => match h_held c t with
                  | h :: hs => if Nat.eqb h l then mkH (hupd (h_held c) t hs) (hupd (h_prog c) t r) else c
                  | [] => c
                  end
  end.
Definition hexec (ts : list nat) (c : hcfg) (schedule : list nat) : hcfg := fold_left (hstep ts) schedule c.

(* THE DISCIPLINE: a thread only asks for a lock that ranks above everything it holds, releases in reverse order and
   holds nothing at the end (nested `with` blocks over a hierarchy of objects) *)
Fixpoint ordered (held : list nat) (prog : list lop) : bool :=
  match prog with
  | [] => match held with [] => true | _ => false end
  | Acq l :: r => forallb (fun h => Nat.ltb h l) held && ordered (l :: held) r
  | Rel l :: r => match held with h :: hs => Nat.eqb h l && ordered hs r | [] => false end
  end.
Definition hinit (prog : nat -> list lop) : hcfg := mkH (fun _ => []) prog.

(* wire: (programs as lists of (kind lock), schedule) -> (all ordered, remaining program lengths, somebody can move or all done) *)
Definition to_lop (x : sx) : lop := match x with L [I 0%Z; I l] => Acq (Z.to_nat l) | L [_; I l] => Rel (Z.to_nat l) | _ => Rel O end.
Definition wire_210 (x : sx) : sx :=
  match x with
  | L [px; sched] =>
      let progs := map (fun p => map to_lop (to_list p)) (to_list px) in
      let prog := fun t => nth t progs [] in
      let ts := seq 0 (List.length progs) in
      let c := hexec ts (hinit prog) (to_nats sched) in
      L [of_bool (forallb (fun t => ordered [] (prog t)) ts);
         of_nats (map (fun t => List.length (h_prog c t)) ts);
         of_bool (forallb (fun t => match h_prog c t with [] => true | _ => false end) ts
                  || existsb (fun t => Nat.ltb (List.length (h_prog (hstep ts c t) t)) (List.length (h_prog c t))) ts)]
  | _ => sx_err
  end.
